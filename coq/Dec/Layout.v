(* Layout.v — the lexical layer of a .dec file, below the statement structure:
     * how the constructor of DecFileParser assembles the text from the files it is given (dec.py:92-133):
       per file — decode (utf_8_sig: a leading byte-order mark is dropped), universal newlines (text mode), line by line,
       drop every line that (after leading BOM characters and white space, before a comment) consists of the word End, append "\n";
     * how the text is cut into items: words (maximal runs of LABEL characters), the separators ; , : = and line ends.
       White space (WS_INLINE) separates and is dropped; a comment (COMMENT = #[^\n]* ) is one line-end item, as the
       _NEWLINE terminal ( /\r?\n[\t ]*/ | COMMENT ) makes it wherever a line end is acceptable.
   Texts are byte strings (UTF-8); the character classes are REGENERATED from the compiled grammar (Gen/GenLayout.v). *)
From Coq Require Import String Ascii List Bool Arith.
From DL Require Import Dec.ModelName.
Import ListNotations.
Open Scope string_scope.

Definition LF : ascii := "010"%char.
Definition CR : ascii := "013"%char.
Definition TAB : ascii := "009"%char.

Inductive item := IWord (w : string) | INl | ISemi | IComma | IColon | IEq | IBad.

Fixpoint mem_ascii (c : ascii) (s : string) : bool :=
  match s with EmptyString => false | String d r => Ascii.eqb c d || mem_ascii c r end.

Section Scan.
  Variable label_chars ws_chars : string.       (* from the compiled LABEL and WS_INLINE terminals *)

  Inductive cclass := CLabel | CWs | CHash | CLf | CCr | CSemi | CComma | CColon | CEq | COther.
  Definition classify (c : ascii) : cclass :=
    if mem_ascii c label_chars then CLabel
    else if mem_ascii c ws_chars then CWs
    else if Ascii.eqb c "#" then CHash
    else if Ascii.eqb c LF then CLf
    else if Ascii.eqb c CR then CCr
    else if Ascii.eqb c ";" then CSemi
    else if Ascii.eqb c "," then CComma
    else if Ascii.eqb c ":" then CColon
    else if Ascii.eqb c "=" then CEq
    else COther.

  Inductive smode := MNone | MWord (w : string) | MComment | MCR.
  Definition flush (m : smode) : list item :=
    match m with MWord w => [IWord w] | MCR => [IBad] | _ => [] end.
  Definition snoc (w : string) (c : ascii) : string := w ++ String c "".
  Definition word_of (m : smode) : string := match m with MWord w => w | _ => "" end.

  Fixpoint scan (s : string) (m : smode) : list item :=
    match s with
    | EmptyString => flush m
    | String c r =>
        match m with
        | MComment => if Ascii.eqb c LF then INl :: scan r MNone else scan r MComment
        | MCR => if Ascii.eqb c LF then INl :: scan r MNone else IBad :: scan r MNone
        | _ =>
            match classify c with
            | CLabel => scan r (MWord (snoc (word_of m) c))
            | CWs => flush m ++ scan r MNone
            | CHash => flush m ++ INl :: scan r MComment
            | CLf => flush m ++ INl :: scan r MNone
            | CCr => flush m ++ scan r MCR
            | CSemi => flush m ++ ISemi :: scan r MNone
            | CComma => flush m ++ IComma :: scan r MNone
            | CColon => flush m ++ IColon :: scan r MNone
            | CEq => flush m ++ IEq :: scan r MNone
            | COther => flush m ++ IBad :: scan r MNone
            end
        end
    end.
End Scan.

(* ------------------------------------------------------------------ the constructor *)
Definition BOM : string := String "239" (String "187" (String "191" "")).

Definition strip_bom (s : string) : string := match strip_prefix BOM s with Some r => r | None => s end.

(* text mode, newline=None: "\r\n" and a lone "\r" are read as "\n" *)
Fixpoint univ_nl (s : string) : string :=
  match s with
  | EmptyString => EmptyString
  | String c r =>
      if Ascii.eqb c CR then
        match r with
        | String d r' => if Ascii.eqb d LF then String LF (univ_nl r') else String LF (univ_nl r)
        | EmptyString => String LF EmptyString
        end
      else String c (univ_nl r)
  end.

(* the lines of a text, each with its line end (the last one possibly without) *)
Fixpoint lines_aux (s cur : string) : list string :=
  match s with
  | EmptyString => match cur with EmptyString => [] | _ => [cur] end
  | String c r => if Ascii.eqb c LF then (cur ++ String c "") :: lines_aux r "" else lines_aux r (cur ++ String c "")
  end.
Definition lines_of (s : string) : list string := lines_aux s "".

(* str.lstrip() on ASCII: space, \t \n \v \f \r and the separators \x1c-\x1f *)
Definition is_pyspace (c : ascii) : bool :=
  let n := nat_of_ascii c in Nat.eqb n 32 || (Nat.leb 9 n && Nat.leb n 13) || (Nat.leb 28 n && Nat.leb n 31).
Fixpoint lstrip (s : string) : string :=
  match s with String c r => if is_pyspace c then lstrip r else s | EmptyString => s end.
(* line.lstrip("﻿"): every leading BOM character; fuel = number of bytes *)
Fixpoint lstrip_boms (n : nat) (s : string) : string :=
  match n with
  | O => s
  | S n' => match strip_prefix BOM s with Some r => lstrip_boms n' r | None => s end
  end.
Definition starts (p s : string) : bool := match strip_prefix p s with Some _ => true | None => false end.
(* the text before the first '#' *)
Fixpoint before_hash (s : string) : string :=
  match s with String c r => if Ascii.eqb c "#" then EmptyString else String c (before_hash r) | EmptyString => s end.
Fixpoint all_space (s : string) : bool :=
  match s with String c r => is_pyspace c && all_space r | EmptyString => true end.
(* beg.split("#", 1)[0].strip() == "End"   with  beg = line.lstrip(BOM).lstrip() *)
Definition is_end_line (l : string) : bool :=
  let beg := lstrip (lstrip_boms (String.length l) l) in
  match strip_prefix "End" (before_hash beg) with Some rest => all_space rest | None => false end.

Definition assemble_file (s : string) : string :=
  String.concat "" (filter (fun l => negb (is_end_line l)) (lines_of (univ_nl (strip_bom s)))) ++ String LF "".
Definition assemble (files : list string) : string := String.concat "" (map assemble_file files).
