(* Whole.v — the reader from the bytes of the files to the decay tables, end to end:
   DecFileParser(files...).parse() = constructor text assembly, scanner, statement automaton (Dec/FrontEnd.v over the
   regenerated configuration Gen/GenLayout.v) followed by the post-processing of parse() (Dec/Post.v).
   Lets the properties about tables be stated about TEXTS, in every layout. *)
From Coq Require Import String Ascii List Bool Arith QArith.
From DL Require Import Dec.ModelName Dec.Num Dec.Syntax Dec.Tables Dec.Layout Dec.ItemParser Dec.FrontEnd Dec.Post
                       Dec.LayoutProofs Dec.ItemParserProofs Dec.FrontEndProofs Gen.GenLayout.
Import ListNotations.
Close Scope Q_scope.
Open Scope string_scope.

(* None: the text is not accepted by the front end (UnexpectedToken / UnexpectedCharacters) *)
Definition parse_dec_files (ccdb : string -> string) (sc : string -> option bool) (inc : bool) (files : list string) :=
  option_map (parse_post ccdb sc inc) (parse_files gen_cfg files).
Definition parse_dec_text (ccdb : string -> string) (sc : string -> option bool) (inc : bool) (text : string) :=
  option_map (parse_post ccdb sc inc) (parse_text gen_cfg text).

Lemma whole_photos_plain : plain (lc_kind gen_cfg) (lc_alts gen_cfg) "PHOTOS".
Proof. vm_compute. reflexivity. Qed.
Lemma whole_sig : lc_sig gen_cfg = true.
Proof. reflexivity. Qed.

(* a layout of the statement list f, spelled in any way: the tables are those of f *)
Theorem parse_dec_text_layout ccdb sc inc f its s :
  file_items (lc_kind gen_cfg) (lc_alts gen_cfg) f its -> spell (lc_label gen_cfg) (lc_ws gen_cfg) its s ->
  parse_dec_text ccdb sc inc s = Some (parse_post ccdb sc inc f).
Proof.
  intros F Sp. unfold parse_dec_text. rewrite (parse_text_layout gen_cfg f its s whole_photos_plain F Sp). reflexivity.
Qed.

(* the same through the file-based constructor: any number of files, BOM, CR LF, End lines dropped *)
Theorem parse_dec_files_layout ccdb sc inc fs f its : Forall file_ok fs ->
  file_items (lc_kind gen_cfg) (lc_alts gen_cfg) f its -> spell (lc_label gen_cfg) (lc_ws gen_cfg) its (cat (map kept_text fs)) ->
  parse_dec_files ccdb sc inc (map file_bytes fs) = Some (parse_post ccdb sc inc f).
Proof.
  intros Hok F Sp. unfold parse_dec_files.
  rewrite (parse_files_layout gen_cfg fs f its whole_sig whole_photos_plain Hok F Sp). reflexivity.
Qed.
