(* Print.v — model of DecFileParser.print_decay_modes (src/decaylanguage/dec/dec.py:832-959).
   The 7-significant-digit rendering of the number is not modelled: a row carries the exact value
   to be shown and the text that follows the number field.  No proofs here. *)
From Coq Require Import String Ascii List Bool ZArith QArith Arith.
From DL Require Import Lib.Val Lib.PyDict Decay.ChainDict Dec.Tables Dec.Num Dec.Fmt7.
Import ListNotations.
Close Scope Q_scope.
Open Scope string_scope.

Record popts := { o_print_model : bool; o_photos_kw : bool; o_ascending : bool; o_normalize : bool;
                  o_scale : option Q }.

(* a decay line as print_decay_modes sees it; p_params: the str() of each model parameter *)
Record pline := { p_bf : Q; p_fs : list string; p_photos : bool; p_model : string; p_params : list string }.

Record prow := { r_shown : Q; r_tail : string; r_src : pline }.

Fixpoint spaces (n : nat) : string := match n with 0 => "" | S k => String " " (spaces k) end.
Definition ljust (s : string) (w : nat) : string := s ++ spaces (w - String.length s).

(* stable insertion sort; le decides "x may precede y" *)
Fixpoint ins (le : pline -> pline -> bool) (x : pline) (l : list pline) : list pline :=
  match l with
  | [] => [x]
  | y :: r => if le x y then x :: y :: r else y :: ins le x r
  end.
Definition sort_lines (le : pline -> pline -> bool) (l : list pline) : list pline := fold_right (ins le) [] l.

Definition le_desc (x y : pline) : bool := Qle_bool (p_bf y) (p_bf x).
Definition le_asc (x y : pline) : bool := Qle_bool (p_bf x) (p_bf y).

Definition qsum (l : list pline) : Q := fold_right (fun x acc => (p_bf x + acc)%Q) 0%Q l.

Inductive pres := POk (rows : list prow) | PErr (e : string).

Definition model_text (o : popts) (x : pline) : string :=
  if o_photos_kw o && p_photos x then "PHOTOS " ++ p_model x else p_model x.

Definition dummy : pline := {| p_bf := 0; p_fs := []; p_photos := false; p_model := ""; p_params := [] |}.

Definition mk_rows (o : popts) (width : nat) (n : Q) (sorted : list pline) : list prow :=
  map (fun x =>
         {| r_shown := (p_bf x / n)%Q;
            r_tail := if o_print_model o
                      then "   " ++ ljust (join " " (p_fs x)) width ++ "     " ++ model_text o x ++ "  " ++ join " " (p_params x)
                      else "   " ++ join " " (p_fs x);
            r_src := x |}) sorted.

Definition scale_ok (s : Q) : bool := negb (Qle_bool s 0) && Qle_bool s 1.

Definition print_rows (o : popts) (tbl : option (list pline)) : pres :=
  let bad_scale := match o_scale o with
                   | Some s => if o_normalize o then true else negb (scale_ok s)
                   | None => false
                   end in
  if bad_scale then PErr "RuntimeError"
  else match tbl with
  | None => PErr "DecayNotFound"
  | Some lines =>
      let sorted := sort_lines (if o_ascending o then le_asc else le_desc) lines in
      let width := fold_right (fun x acc => Nat.max (String.length (join " " (p_fs x))) acc) 0 lines + 2 in
      match sorted with
      | [] => match o_scale o with Some _ => PErr "IndexError" | None => POk [] end
      | _ =>
          let n : Q :=
            if o_normalize o then qsum sorted
            else match o_scale o with
                 | Some s => (p_bf (if o_ascending o then last sorted dummy else hd dummy sorted) / s)%Q
                 | None => 1%Q
                 end in
          if Qeq_bool n 0 then PErr "ZeroDivisionError" else POk (mk_rows o width n sorted)
      end
  end.

(* the number as "{:.7g}" prints it: of the exact value, and of the value moved by 2^-46 relatively either way (the printed
   float differs from the exact value by a few units in the last place: float(literal), the sum, the division) *)
Definition eps46 : Q := 1 # (2 ^ 46).
Definition g7_candidates (q : Q) : list string :=
  [fmt_g7 q; fmt_g7 (Qred (q * (1 - eps46))); fmt_g7 (Qred (q * (1 + eps46)))].

Definition vpres (r : pres) : val :=
  match r with
  | PErr e => VErr e
  | POk rows => VList (map (fun r => VList [vq (r_shown r); VStr (r_tail r); VList (map VStr (g7_candidates (r_shown r)))]) rows)
  end.
