(* QueriesProofs.v — global declarations: reported completely, later declarations winning (property C07). *)
From Coq Require Import String Ascii List Bool ZArith QArith Arith Lia Permutation.
From DL Require Import Lib.Val Lib.PyDict Lib.Sort Dec.Num Dec.Syntax Dec.Post Dec.PostProofs Dec.Queries.
Import ListNotations.
Close Scope Q_scope.
Open Scope string_scope.
Open Scope list_scope.

(* ------------------------------------------------------------------ flat dictionaries *)
Lemma pd_update_keys {V} (e : list (string * V)) : forall d k,
  In k (pd_keys (pd_update d e)) <-> In k (pd_keys d) \/ In k (map fst e).
Proof.
  induction e as [|[k' v] e IH]; intros d k; simpl; [tauto|].
  unfold pd_update in *. simpl. rewrite IH. rewrite pd_keys_set.
  destruct (pd_mem k' d) eqn:M.
  - apply pd_mem_in in M. split; [tauto|]. intros [H|[H|H]]; subst; tauto.
  - rewrite in_app_iff. simpl. tauto.
Qed.

(* every declared name is a key, and only those *)
Theorem pd_of_list_keys {V} (l : list (string * V)) k : In k (pd_keys (pd_of_list l)) <-> In k (map fst l).
Proof. unfold pd_of_list. rewrite pd_update_keys. simpl. tauto. Qed.

(* ------------------------------------------------------------------ CDecay list, PHOTOS flag *)
Theorem cdecays_sorted_all f :
  Permutation (cdecays_of f) (flat_map (fun s => match s with SCDecay m => [m] | _ => [] end) f) /\
  sorted (cdecays_of f).
Proof. split; [apply sort_perm | apply sort_sorted]. Qed.

Theorem photos_last_flag f :
  q_photos f = match rev (photos_flags f) with b :: _ => b | [] => false end.
Proof.
  unfold q_photos. generalize (photos_flags f). intros l.
  destruct (rev l) as [|b r] eqn:E.
  - apply (f_equal (@rev bool)) in E. rewrite rev_involutive in E. subst. reflexivity.
  - apply (f_equal (@rev bool)) in E. rewrite rev_involutive in E. subst. simpl. apply last_last.
Qed.

(* ------------------------------------------------------------------ two-level dictionaries *)
Definition get2 {V} (k1 k2 : string) (d : pdict (pdict V)) : option V := pd_get k2 (inner_get k1 d).

Lemma get2_set {V} (d : pdict (pdict V)) p s (v : V) p' s' :
  get2 p' s' (pd_set p (pd_set s v (inner_get p d)) d) =
  if String.eqb p' p && String.eqb s' s then Some v else get2 p' s' d.
Proof.
  unfold get2, inner_get. destruct (String.eqb p' p) eqn:Ep.
  - apply String.eqb_eq in Ep. subst. rewrite pd_get_set_same. simpl.
    destruct (String.eqb s' s) eqn:Es.
    + apply String.eqb_eq in Es. subst. apply pd_get_set_same.
    + apply pd_get_set_other. intros ->. rewrite String.eqb_refl in Es. discriminate.
  - simpl. rewrite pd_get_set_other; [reflexivity|]. intros ->. rewrite String.eqb_refl in Ep. discriminate.
Qed.

Fixpoint assoc2_last {V} (k1 k2 : string) (l : list (string * (string * V))) : option V :=
  match l with
  | [] => None
  | (a, (b, v)) :: r => match assoc2_last k1 k2 r with
                        | Some w => Some w
                        | None => if String.eqb k1 a && String.eqb k2 b then Some v else None
                        end
  end.

Lemma fold2_get {V} (l : list (string * (string * V))) : forall d k1 k2,
  get2 k1 k2 (fold_left (fun d e => pd_set (fst e) (pd_set (fst (snd e)) (snd (snd e)) (inner_get (fst e) d)) d) l d) =
  match assoc2_last k1 k2 l with Some v => Some v | None => get2 k1 k2 d end.
Proof.
  induction l as [|[a [b v]] r IH]; intros d k1 k2; simpl; [reflexivity|].
  rewrite IH. destruct (assoc2_last k1 k2 r); [reflexivity|]. simpl. rewrite get2_set.
  destruct (String.eqb k1 a && String.eqb k2 b); reflexivity.
Qed.

(* Pythia: the value reported for (kind, "module:param") is that of the LAST such statement *)
Theorem pythia_last_wins f kind key :
  get2 kind key (q_pythia f) = assoc2_last kind key (pythia_entries f).
Proof.
  unfold q_pythia. rewrite fold2_get. destruct (assoc2_last kind key (pythia_entries f)); reflexivity.
Qed.

(* ------------------------------------------------------------------ JetSet *)
Fixpoint zget {V} (k : Z) (d : list (Z * V)) : option V :=
  match d with [] => None | (k', v) :: r => if Z.eqb k k' then Some v else zget k r end.

Lemma zget_zset {V} k (v : V) d k' : zget k' (zset k v d) = if Z.eqb k' k then Some v else zget k' d.
Proof.
  induction d as [|[a b] r IH]; simpl.
  - destruct (Z.eqb k' k); reflexivity.
  - destruct (Z.eqb k a) eqn:E; simpl.
    + apply Z.eqb_eq in E. subst. destruct (Z.eqb k' a); reflexivity.
    + rewrite IH. destruct (Z.eqb k' k) eqn:E2; [|reflexivity].
      apply Z.eqb_eq in E2. subst. rewrite E. reflexivity.
Qed.

Definition jget (m : string) (i : Z) (d : pdict (list (Z * cval))) : option cval :=
  zget i (match pd_get m d with Some l => l | None => [] end).

Fixpoint jassoc_last (m : string) (i : Z) (l : list (string * (Z * cval))) : option cval :=
  match l with
  | [] => None
  | (a, (b, v)) :: r => match jassoc_last m i r with
                        | Some w => Some w
                        | None => if String.eqb m a && Z.eqb i b then Some v else None
                        end
  end.

Lemma jfold_get l : forall d m i,
  jget m i (fold_left jetset_step l d) = match jassoc_last m i l with Some v => Some v | None => jget m i d end.
Proof.
  induction l as [|[a [b v]] r IH]; intros d m i; simpl; [reflexivity|].
  rewrite IH. destruct (jassoc_last m i r); [reflexivity|].
  unfold jget, jetset_step. simpl. destruct (String.eqb m a) eqn:E.
  - apply String.eqb_eq in E. subst. rewrite pd_get_set_same. rewrite zget_zset. simpl. destruct (Z.eqb i b); reflexivity.
  - simpl. rewrite pd_get_set_other; [reflexivity|]. intros ->. rewrite String.eqb_refl in E. discriminate.
Qed.

Theorem jetset_last_wins f es d m i : jetset_entries f = Some es -> q_jetset f = Some d ->
  jget m i d = jassoc_last m i es.
Proof.
  intros E H. unfold q_jetset in H. rewrite E in H. inversion H; subst.
  rewrite jfold_get. destruct (jassoc_last m i es); reflexivity.
Qed.

(* integers stay integers: a JetSet value is an int exactly when its literal has no '.' / exponent *)
Theorem jetset_value_type lit : int_or_float lit =
  match numval lit with Some (q, true) => CInt (Qnum q) | Some (q, false) => CNum q | None => CStr lit end.
Proof. reflexivity. Qed.

(* ------------------------------------------------------------------ lineshape settings *)
Definition lkey (e : string * (string * lsval)) : string * string := (fst e, fst (snd e)).
Definition has (d : pdict (pdict lsval)) (k : string * string) : bool := pd_mem (snd k) (inner_get (fst k) d).

Lemma key_dec (a b : string * string) : {a = b} + {a <> b}.
Proof. decide equality; apply string_dec. Qed.

Lemma has_get2 d k : has d k = match get2 (fst k) (snd k) d with Some _ => true | None => false end.
Proof. reflexivity. Qed.

Lemma ls_fold_none l : fold_left ls_step l None = None.
Proof. induction l; simpl; auto. Qed.

Lemma ls_fold_some l : forall d d', fold_left ls_step l (Some d) = Some d' ->
  NoDup (map lkey l) /\ (forall e, In e l -> has d (lkey e) = false) /\
  (forall p s, get2 p s d' = match assoc2_last p s l with Some v => Some v | None => get2 p s d end).
Proof.
  induction l as [|[p [s v]] r IH]; intros d d' H; simpl in H.
  - inversion H; subst. split; [constructor|]. split; [intros e []|]. intros p s. reflexivity.
  - destruct (pd_mem s (inner_get p d)) eqn:M; [rewrite ls_fold_none in H; discriminate|].
    destruct (IH _ _ H) as [Nd [Fresh G]]. split; [|split].
    + simpl. constructor; [|assumption]. intros Hin. apply in_map_iff in Hin. destruct Hin as [e [Ek He]].
      specialize (Fresh e He). rewrite has_get2, Ek in Fresh. unfold lkey in Fresh. simpl in Fresh.
      rewrite get2_set, !String.eqb_refl in Fresh. discriminate.
    + intros e [<-|He]; [exact M|]. specialize (Fresh e He). rewrite has_get2 in *.
      rewrite get2_set in Fresh. destruct (String.eqb (fst (lkey e)) p && String.eqb (snd (lkey e)) s); [discriminate | assumption].
    + intros p' s'. rewrite G. simpl. destruct (assoc2_last p' s' r); [reflexivity|]. rewrite get2_set.
      destruct (String.eqb p' p && String.eqb s' s); reflexivity.
Qed.

Lemma ls_fold_ok l : forall d, NoDup (map lkey l) -> (forall e, In e l -> has d (lkey e) = false) ->
  exists d', fold_left ls_step l (Some d) = Some d'.
Proof.
  induction l as [|[p [s v]] r IH]; intros d Nd Fresh; simpl; [eexists; reflexivity|].
  pose proof (Fresh _ (or_introl eq_refl)) as M. unfold has, lkey in M. simpl in M. rewrite M.
  inversion Nd as [|? ? Hni Nd']; subst. apply IH; [assumption|].
  intros e He. rewrite has_get2, get2_set.
  destruct (String.eqb (fst (lkey e)) p && String.eqb (snd (lkey e)) s) eqn:E.
  - exfalso. apply Hni. apply andb_true_iff in E. destruct E as [E1 E2]. apply String.eqb_eq in E1, E2.
    apply in_map_iff. exists e. split; [|assumption]. unfold lkey in *. simpl in *. subst. reflexivity.
  - rewrite <- has_get2. apply Fresh. right. assumption.
Qed.

(* a repeated (particle, setting) is reported as an error; otherwise every statement is accounted for *)
Theorem lineshape_error_iff_repeated f :
  q_lineshape f = None <-> ~ NoDup (map lkey (ls_entries f)).
Proof.
  unfold q_lineshape. split.
  - intros H Nd. destruct (ls_fold_ok (ls_entries f) [] Nd) as [d' E]; [intros e _; reflexivity|].
    assert (X : Some d' = None) by (rewrite <- E; exact H). discriminate.
  - intros H. destruct (fold_left ls_step (ls_entries f) (Some [])) as [d'|] eqn:E; [|reflexivity].
    exfalso. apply H. apply (ls_fold_some _ _ _ E).
Qed.

Theorem lineshape_values f d p s : q_lineshape f = Some d ->
  get2 p s d = assoc2_last p s (ls_entries f).
Proof.
  intros H. unfold q_lineshape in H. destruct (ls_fold_some _ _ _ H) as [_ [_ G]]. rewrite G.
  destruct (assoc2_last p s (ls_entries f)); reflexivity.
Qed.

(* ------------------------------------------------------------------ Particle: explicit width or reference width in GeV *)
Theorem particle_width ref_width gev aliases n mass width :
  particle_entry ref_width gev aliases n mass width =
  match width with
  | Some w => Some (n, {| pp_mass := numq mass; pp_width := numq w |})
  | None => match ref_width (match pd_get n aliases with Some a => a | None => n end) with
            | Some w => Some (n, {| pp_mass := numq mass; pp_width := (w / gev)%Q |})
            | None => None
            end
  end.
Proof. reflexivity. Qed.

Theorem particles_last_wins ref_width gev f es d k :
  particle_entries ref_width gev (aliases_of f) f = Some es -> q_particles ref_width gev f = Some d ->
  pd_get k d = assoc_last k es /\ (In k (pd_keys d) <-> In k (map fst es)).
Proof.
  intros E H. unfold q_particles in H. rewrite E in H. inversion H; subst.
  split; [apply pd_of_list_last | apply pd_of_list_keys].
Qed.
