(* ModelNameProofs.v — every supported model name is recognised as itself (property C06). *)
From Coq Require Import String Ascii List Bool Arith Lia Permutation Sorted.
From DL Require Import Dec.ModelName.
Import ListNotations.
Open Scope string_scope.
Open Scope list_scope.

(* ------------------------------------------------------------------ what match_alts returns *)
Lemma match_alts_some k prev alts s n : match_alts k prev alts s = Some n ->
  exists a, In a alts /\ alt_matches k prev a s = true /\ n = String.length a.
Proof.
  induction alts as [|a r IH]; simpl; [discriminate|]. destruct (alt_matches k prev a s) eqn:E.
  - intros H. inversion H. exists a. auto.
  - intros H. destruct (IH H) as [a' [A [B C]]]. exists a'. auto.
Qed.

Lemma match_alts_none k prev alts s : match_alts k prev alts s = None <->
  forall a, In a alts -> alt_matches k prev a s = false.
Proof.
  induction alts as [|a r IH]; simpl; [split; [intros _ a [] | reflexivity]|].
  destruct (alt_matches k prev a s) eqn:E.
  - split; [discriminate|]. intros H. rewrite (H a (or_introl eq_refl)) in E. discriminate.
  - rewrite IH. split; [intros H a' [<-|H']; auto | intros H a' H'; apply H; right; assumption].
Qed.

Definition len_desc (l : list string) : Prop := StronglySorted (fun a b => String.length b <= String.length a) l.

(* in a longest-first list the first match is a longest match *)
Lemma match_alts_longest k prev alts s n : len_desc alts -> match_alts k prev alts s = Some n ->
  forall a, In a alts -> alt_matches k prev a s = true -> String.length a <= n.
Proof.
  induction 1 as [|x r Hs IH Hall]; simpl; [discriminate|].
  destruct (alt_matches k prev x s) eqn:E.
  - intros H a [<-|Ha] Hm; inversion H; subst; [lia|]. rewrite Forall_forall in Hall. auto.
  - intros H a [<-|Ha] Hm; [congruence | auto].
Qed.

Lemma match_alts_exists k prev alts s a : In a alts -> alt_matches k prev a s = true ->
  exists n, match_alts k prev alts s = Some n.
Proof.
  intros Hin Hm. destruct (match_alts k prev alts s) as [n|] eqn:E; [eauto|].
  rewrite match_alts_none in E. rewrite (E a Hin) in Hm. discriminate.
Qed.

(* ------------------------------------------------------------------ the sort *)
Lemma ins_len_perm x l : Permutation (ins_len x l) (x :: l).
Proof.
  induction l as [|y r IH]; simpl; [reflexivity|]. destruct (Nat.leb _ _); [reflexivity|]. rewrite IH. apply perm_swap.
Qed.
Lemma sort_len_perm l : Permutation (sort_len_desc l) l.
Proof. induction l; simpl; [reflexivity|]. rewrite ins_len_perm. constructor. assumption. Qed.

Lemma ins_len_sorted x l : len_desc l -> len_desc (ins_len x l).
Proof.
  unfold len_desc. induction l as [|y r IH]; simpl; intros H; [constructor; constructor|].
  inversion H as [|? ? Hs Hall]; subst. destruct (Nat.leb (String.length y) (String.length x)) eqn:E.
  - apply Nat.leb_le in E. constructor; [assumption|]. constructor; [assumption|].
    rewrite Forall_forall in *. intros z Hz. specialize (Hall z Hz). lia.
  - apply Nat.leb_gt in E. constructor; [auto|]. rewrite Forall_forall in *. intros z Hz.
    apply (Permutation_in _ (ins_len_perm x r)) in Hz. destruct Hz as [<-|Hz]; [lia | auto].
Qed.
Lemma sort_len_sorted l : len_desc (sort_len_desc l).
Proof. induction l; simpl; [constructor | apply ins_len_sorted; assumption]. Qed.

(* ------------------------------------------------------------------ prefixes *)
Lemma strip_prefix_app a rest : strip_prefix a (a ++ rest)%string = Some rest.
Proof. induction a; simpl; [reflexivity|]. rewrite Ascii.eqb_refl. assumption. Qed.

Lemma strip_prefix_some p s rest : strip_prefix p s = Some rest -> s = (p ++ rest)%string.
Proof.
  revert s. induction p as [|a p IH]; intros s H; simpl in *; [inversion H; reflexivity|].
  destruct s as [|b s]; [discriminate|]. destruct (Ascii.eqb a b) eqn:E; [|discriminate].
  apply Ascii.eqb_eq in E. subst. f_equal. apply IH. assumption.
Qed.

Fixpoint all_chars (f : ascii -> bool) (s : string) : bool :=
  match s with EmptyString => true | String c r => f c && all_chars f r end.

Lemma append_len a b : String.length (a ++ b)%string = String.length a + String.length b.
Proof. induction a; simpl; auto. Qed.

(* a prefix of m ++ rest that contains no character of class sep, when rest is empty or starts with a sep
   character, is a prefix of m *)
Lemma prefix_within (sep : ascii -> bool) : forall n m rest r',
  all_chars (fun c => negb (sep c)) n = true ->
  (rest = EmptyString \/ exists c r, rest = String c r /\ sep c = true) ->
  (m ++ rest)%string = (n ++ r')%string -> String.length n <= String.length m.
Proof.
  induction n as [|a n IH]; intros m rest r' Hn Hr E; simpl; [lia|].
  simpl in Hn. apply andb_true_iff in Hn. destruct Hn as [Ha Hn].
  destruct m as [|b m]; simpl in E.
  - destruct Hr as [->|[c [r [-> Hc]]]]; [discriminate|]. inversion E; subst. rewrite Hc in Ha. discriminate.
  - inversion E; subst. simpl. apply le_n_S. eapply IH; eassumption.
Qed.

Lemma same_length_prefix : forall n m r r', String.length n = String.length m -> (m ++ r)%string = (n ++ r')%string -> n = m.
Proof.
  induction n as [|a n IH]; intros [|b m] r r' Hl E; simpl in *; try discriminate; [reflexivity|].
  inversion E; subst. f_equal. eapply IH; [lia | eassumption].
Qed.

(* ------------------------------------------------------------------ C06: accepted as itself *)
(* names: all registered model names; sep: the characters that may follow a model word (blank, tab, line end,
   ';', ','...), none of which occurs in a model name *)
Theorem model_name_recognised k prev (sep : ascii -> bool) names m rest :
  In m names ->
  (forall n, In n names -> all_chars (fun c => negb (sep c)) n = true) ->
  (rest = EmptyString \/ exists c r, rest = String c r /\ sep c = true) ->
  boundary_ok k (last_char m prev) (head_char rest) = true ->
  match_alts k prev (sort_len_desc names) (m ++ rest) = Some (String.length m).
Proof.
  intros Hm Hnames Hrest Hb.
  assert (Hmm : alt_matches k prev m (m ++ rest) = true) by (unfold alt_matches; rewrite strip_prefix_app; exact Hb).
  assert (Hin : In m (sort_len_desc names)) by (apply (Permutation_in _ (Permutation_sym (sort_len_perm names))); assumption).
  destruct (match_alts_exists k prev _ _ m Hin Hmm) as [n E]. rewrite E. f_equal.
  pose proof (match_alts_longest k prev _ _ n (sort_len_sorted names) E m Hin Hmm) as Hge.
  destruct (match_alts_some k prev _ _ n E) as [a [Ha [Hma ->]]].
  unfold alt_matches in Hma. destruct (strip_prefix a (m ++ rest)) as [r'|] eqn:Es; [|discriminate].
  apply strip_prefix_some in Es.
  assert (Hle : String.length a <= String.length m).
  { eapply (prefix_within sep a m rest r'); [|exact Hrest | exact Es].
    apply Hnames. apply (Permutation_in _ (sort_len_perm names)). assumption. }
  lia.
Qed.

(* a word that merely EXTENDS model names by word characters is not taken for a model name *)
Theorem label_extension_not_a_model k prev names w rest :
  (forall n, In n names -> forall r', (w ++ rest)%string = (n ++ r')%string ->
       boundary_ok k (last_char n prev) (head_char r') = false) ->
  match_alts k prev (sort_len_desc names) (w ++ rest) = None.
Proof.
  intros H. apply match_alts_none. intros a Ha. unfold alt_matches.
  destruct (strip_prefix a (w ++ rest)) as [r'|] eqn:Es; [|reflexivity].
  apply strip_prefix_some in Es. apply (H a); [|assumption].
  apply (Permutation_in _ (sort_len_perm names)). assumption.
Qed.

(* with \b: inside a run of word characters there is no boundary *)
Lemma no_boundary_inside_word prev n c r' : last_char n prev = Some c -> is_word c = true ->
  wordo (head_char r') = true -> boundary_ok BWordBoundary (last_char n prev) (head_char r') = false.
Proof. intros -> Hc Hh. simpl. rewrite Hc, Hh. reflexivity. Qed.
