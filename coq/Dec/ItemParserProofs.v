(* ItemParserProofs.v — the statement automaton reads back every statement list from every item-level layout of it:
   any number of line ends before / between / after statements and decay lines, line ends and commas anywhere inside a
   (started) parameter list, repeated semicolons, an optional final End. *)
From Coq Require Import String Ascii List Bool Arith Lia.
From DL Require Import Dec.ModelName Dec.Num Dec.Syntax Dec.Layout Dec.ItemParser.
Import ListNotations.
Open Scope string_scope.

Arguments is_num : simpl never.
Arguments numclass : simpl never.
Arguments is_int : simpl never.
Arguments mclass : simpl never.

Definition nls (k : nat) : list item := repeat INl (S k).
Definition semis (k : nat) : list item := repeat ISemi (S k).

Definition ptext (p : param) : string := match p with PLit l => l | PLabel l => l end.
Definition param_ok (p : param) : Prop := match p with PLit l => is_num l = true | PLabel l => numclass l = NWord end.

(* the items between a model name and its first semicolon *)
Inductive opt_items : list param -> list item -> Prop :=
| oi_nil : opt_items [] []
| oi_nl ps its : opt_items ps its -> opt_items ps (INl :: its)
| oi_comma ps its : opt_items ps its -> opt_items ps (IComma :: its)
| oi_word p ps its : param_ok p -> opt_items ps its -> opt_items (p :: ps) (IWord (ptext p) :: its).

Definition py_kinds := ["PythiaAliasParam"; "PythiaBothParam"; "PythiaGenericParam"].
Definition ls_kinds := ["LSFLAT"; "LSNONRELBW"; "LSMANYDELTAFUNC"].
Definition cm_kinds := ["ChangeMassMin"; "ChangeMassMax"].
Definition if_kinds := ["IncludeBirthFactor"; "IncludeDecayFactor"].

Definition simple_of (s : stmt) : option (string * list item) :=
  match s with
  | SDefine n l => Some ("Define", [IWord n; IWord l])
  | SAlias a b => Some ("Alias", [IWord a; IWord b])
  | SChargeConj a b => Some ("ChargeConj", [IWord a; IWord b])
  | SCDecay m => Some ("CDecay", [IWord m])
  | SCopyDecay a b => Some ("CopyDecay", [IWord a; IWord b])
  | SParticle n m None => Some ("Particle", [IWord n; IWord m])
  | SParticle n m (Some w) => Some ("Particle", [IWord n; IWord m; IWord w])
  | SPythia k a b c => Some (k, [IWord a; IColon; IWord b; IEq; IWord c])
  | SJetSet a b => Some ("JetSetPar", [IWord a; IEq; IWord b])
  | SLS k p => Some (k, [IWord p])
  | SBW p l => Some ("BlattWeisskopf", [IWord p; IWord l])
  | SChangeMass k p l => Some (k, [IWord p; IWord l])
  | SIncFactor k p y => Some (k, [IWord p; IWord y])
  | SLSPW a b c d => Some ("SetLineshapePW", [IWord a; IWord b; IWord c; IWord d])
  | SPhotos b => Some (if b then "yesPhotos" else "noPhotos", [])
  | SDecay _ _ | SModelAlias _ _ => None
  end.

Definition simple_ok (s : stmt) : Prop :=
  match s with
  | SDefine _ l => is_num l = true
  | SParticle _ m w => is_num m = true /\ match w with Some x => is_num x = true | None => True end
  | SPythia k _ _ c => In k py_kinds /\ numclass c <> NSplit
  | SJetSet _ b => is_num b = true
  | SLS k _ => In k ls_kinds
  | SBW _ l => is_num l = true
  | SChangeMass k _ l => In k cm_kinds /\ is_num l = true
  | SIncFactor k _ y => In k if_kinds /\ In y ["yes"; "no"]
  | SLSPW _ _ _ d => is_int d = true
  | _ => True
  end.

Definition collectable (i : item) : Prop := match i with IWord _ | IColon | IEq => True | _ => False end.

Section P.
  Variable kind : bkind.
  Variable alts : list string.
  Notation step := (step kind alts).
  Notation run := (run kind alts).
  Notation mclass := (mclass kind alts).
  Notation parse_items := (parse_items kind alts).

  Definition plain (w : string) : Prop := mclass w = WPlain.

  Inductive model_items : dmodel -> list item -> Prop :=
  | mi_label l k : plain l -> model_items (MLabel l) (IWord l :: semis k)
  | mi_name n k : mclass n = WModel -> model_items (MName n None) (IWord n :: semis k)
  | mi_opts n ps its k : mclass n = WModel -> opt_items ps its -> its <> [] ->
      model_items (MName n (Some ps)) (IWord n :: its ++ semis k).

  Definition fs_ok (fs : list string) : Prop := Forall (fun f => plain f /\ f <> "PHOTOS") fs.
  Definition label_ok (md : dmodel) : Prop := match md with MLabel l => l <> "PHOTOS" | _ => True end.

  Inductive line_items : dline -> list item -> Prop :=
  | li bf fs ph md mits k : is_num bf = true -> fs_ok fs -> model_items md mits -> label_ok md ->
      line_items {| d_bf := bf; d_fs := fs; d_photos := ph; d_model := md |}
                 (IWord bf :: map IWord fs ++ (if ph then [IWord "PHOTOS"] else []) ++ mits ++ nls k).

  Inductive stmt_items : stmt -> list item -> Prop :=
  | si_simple s kw args k : simple_of s = Some (kw, args) -> simple_ok s -> stmt_items s (IWord kw :: args ++ nls k)
  | si_decay m lines litems k1 k2 : Forall2 line_items lines litems ->
      stmt_items (SDecay m lines) (IWord "Decay" :: IWord m :: nls k1 ++ concat litems ++ IWord "Enddecay" :: nls k2)
  | si_alias n md mits k : model_items md mits ->
      stmt_items (SModelAlias n md) (IWord "ModelAlias" :: IWord n :: mits ++ nls k).

  Inductive body_items : list stmt -> list item -> Prop :=
  | bi_nil : body_items [] []
  | bi_cons s ss i1 i2 : stmt_items s i1 -> body_items ss i2 -> body_items (s :: ss) (i1 ++ i2).

  Inductive file_items : list stmt -> list item -> Prop :=
  | fi_plain k0 ss its : body_items ss its -> file_items ss (repeat INl k0 ++ its)
  | fi_end k0 ss its k : body_items ss its -> file_items ss (repeat INl k0 ++ its ++ IWord "End" :: nls k).

  (* ---------------------------------------------------------------- running *)
  Lemma run_app a b s : run (a ++ b) s = match run a s with Some s' => run b s' | None => None end.
  Proof. revert s. induction a as [|i a IH]; intro s; cbn; [reflexivity|]. destruct (step s i); [apply IH|reflexivity]. Qed.

  Lemma param_of_text p : param_ok p -> param_of (ptext p) = Some p.
  Proof. destruct p as [l|l]; cbn; intro H; unfold param_of.
    - unfold numclass. rewrite H. reflexivity.
    - rewrite H. reflexivity. Qed.

  Lemma run_opts ps its : opt_items ps its -> forall rest acc x n qs,
      run (its ++ rest) (acc, KOpts x n qs) = run rest (acc, KOpts x n (qs ++ ps)).
  Proof.
    induction 1 as [|ps its _ IH|ps its _ IH|p ps its Hp _ IH]; intros rest acc x n qs.
    - rewrite app_nil_r. reflexivity.
    - cbn. apply IH.
    - cbn. apply IH.
    - cbn. rewrite (param_of_text p Hp). rewrite IH. rewrite <- app_assoc. reflexivity.
  Qed.

  Lemma run_opts_name ps its : opt_items ps its -> its <> [] -> forall rest acc x n,
      run (its ++ rest) (acc, KName x n) = run rest (acc, KOpts x n ps).
  Proof.
    intros H Hne rest acc x n. inversion H as [|ps' its' H'|ps' its' H'|p ps' its' Hp H']; subst.
    - contradiction.
    - cbn. apply (run_opts _ _ H').
    - cbn. apply (run_opts _ _ H').
    - cbn. rewrite (param_of_text p Hp). apply (run_opts _ _ H').
  Qed.

  Lemma run_semis k rest acc x md : run (repeat ISemi k ++ rest) (acc, KSemi x md) = run rest (acc, KSemi x md).
  Proof. induction k as [|k IH]; cbn; [reflexivity|apply IH]. Qed.

  (* from the position of the model word *)
  Lemma run_model md mits : model_items md mits -> forall rest acc x,
      run (mits ++ rest) (acc, KModel x) = run rest (acc, KSemi x md).
  Proof.
    intros H rest acc x. destruct H as [l k Hl|n k Hn|n ps its k Hn Ho Hne].
    - cbn. unfold model_word. rewrite Hl. cbn. apply run_semis.
    - cbn. unfold model_word. rewrite Hn. cbn. apply run_semis.
    - cbn. unfold model_word. rewrite Hn. rewrite <- app_assoc. rewrite (run_opts_name _ _ Ho Hne).
      cbn. apply run_semis.
  Qed.

  Lemma run_fs fs : fs_ok fs -> forall rest acc m lines bf fs0,
      run (map IWord fs ++ rest) (acc, KFs m lines bf fs0) = run rest (acc, KFs m lines bf (fs0 ++ fs)).
  Proof.
    induction 1 as [|f fs [Hp Hn] _ IH]; intros rest acc m lines bf fs0.
    - rewrite app_nil_r. reflexivity.
    - cbn. rewrite Hp. destruct (String.eqb_spec f "PHOTOS") as [E|_]; [contradiction|].
      rewrite IH. rewrite <- app_assoc. reflexivity.
  Qed.

  Lemma run_nls_dtop k rest acc m lines : run (repeat INl k ++ rest) (acc, KDTop m lines) = run rest (acc, KDTop m lines).
  Proof. induction k as [|k IH]; cbn; [reflexivity|apply IH]. Qed.
  Lemma run_nls_top k rest acc : run (repeat INl k ++ rest) (acc, KTop) = run rest (acc, KTop).
  Proof. induction k as [|k IH]; cbn; [reflexivity|apply IH]. Qed.

  Hypothesis photos_plain : plain "PHOTOS".

  Lemma is_num_Enddecay : is_num "Enddecay" = false. Proof. reflexivity. Qed.

  Lemma run_line l its : line_items l its -> forall rest acc m lines,
      run (its ++ rest) (acc, KDTop m lines) = run rest (acc, KDTop m (lines ++ [l])).
  Proof.
    intros H rest acc m lines. destruct H as [bf fs ph md mits k Hbf Hfs Hmd Hlab].
    cbn [app run step].
    destruct (String.eqb_spec bf "Enddecay") as [E|_]; [subst bf; rewrite is_num_Enddecay in Hbf; discriminate|].
    rewrite Hbf. rewrite <- !app_assoc. rewrite (run_fs _ Hfs). cbn [app].
    destruct ph.
    - (* PHOTOS, then the model *)
      cbn [app run step]. rewrite photos_plain. cbn. rewrite (run_model _ _ Hmd).
      unfold nls. cbn. apply run_nls_dtop.
    - cbn [app]. destruct Hmd as [l k' Hl|n k' Hn|n ps its k' Hn Ho Hne].
      + (* a label: read as one more daughter, recognised as the model by the semicolon *)
        cbn [app run step]. rewrite Hl. cbn in Hlab. destruct (String.eqb_spec l "PHOTOS") as [E|_]; [contradiction|].
        cbn [semis repeat app run step]. rewrite rev_app_distr. cbn [rev app]. rewrite rev_involutive.
        rewrite run_semis. unfold nls. cbn. apply run_nls_dtop.
      + cbn [app run step]. rewrite Hn. cbn [semis repeat app run step]. rewrite run_semis. unfold nls. cbn. apply run_nls_dtop.
      + cbn [app run step]. rewrite Hn. rewrite <- app_assoc. rewrite (run_opts_name _ _ Ho Hne).
        cbn [semis repeat app run step]. rewrite run_semis. unfold nls. cbn. apply run_nls_dtop.
  Qed.

  Lemma run_lines lines litems : Forall2 line_items lines litems -> forall rest acc m l0,
      run (concat litems ++ rest) (acc, KDTop m l0) = run rest (acc, KDTop m (l0 ++ lines)).
  Proof.
    induction 1 as [|l its lines litems Hl _ IH]; intros rest acc m l0.
    - cbn. rewrite app_nil_r. reflexivity.
    - cbn [concat]. rewrite <- app_assoc. rewrite (run_line _ _ Hl). rewrite IH. rewrite <- app_assoc. reflexivity.
  Qed.

  Lemma run_args args : Forall collectable args -> forall rest acc kw a0,
      run (args ++ rest) (acc, KArgs kw a0) = run rest (acc, KArgs kw (rev args ++ a0)).
  Proof.
    induction 1 as [|i args Hi _ IH]; intros rest acc kw a0; [reflexivity|].
    destruct i; try contradiction; cbn [app run step]; rewrite IH; cbn [rev]; rewrite <- app_assoc; reflexivity.
  Qed.

  Lemma simple_sound s kw args : simple_of s = Some (kw, args) -> simple_ok s ->
      (forall acc, step (acc, KTop) (IWord kw) = Some (acc, KArgs kw [])) /\ mk_stmt kw args = Some s /\ Forall collectable args.
  Proof.
    intros Hs Hok.
    destruct s as [m ls|n l|a b|a b|m|a b|n md|n m w|k a b c|a b|k p|p l|k p l|k p y|a b c d|b]; cbn in Hs; try discriminate.
    - injection Hs as <- <-. cbn in Hok. repeat split; [cbn; rewrite Hok; reflexivity|repeat constructor].
    - injection Hs as <- <-. repeat split; repeat constructor.
    - injection Hs as <- <-. repeat split; repeat constructor.
    - injection Hs as <- <-. repeat split; repeat constructor.
    - injection Hs as <- <-. repeat split; repeat constructor.
    - destruct w as [w|]; injection Hs as <- <-; cbn in Hok; destruct Hok as [Hm Hw].
      + repeat split; [cbn; rewrite Hm, Hw; reflexivity|repeat constructor].
      + repeat split; [cbn; rewrite Hm; reflexivity|repeat constructor].
    - injection Hs as <- <-. cbn in Hok. destruct Hok as [Hk Hc].
      assert (E : mk_stmt k [IWord a; IColon; IWord b; IEq; IWord c] = Some (SPythia k a b c)).
      { cbn in Hk. destruct Hk as [<-|[<-|[<-|[]]]]; cbn; destruct (numclass c); try reflexivity; contradiction. }
      repeat split; [|exact E|repeat constructor].
      intro acc. cbn in Hk. destruct Hk as [<-|[<-|[<-|[]]]]; reflexivity.
    - injection Hs as <- <-. cbn in Hok. repeat split; [cbn; rewrite Hok; reflexivity|repeat constructor].
    - injection Hs as <- <-. cbn in Hok.
      repeat split; [| |repeat constructor]; [intro acc|]; destruct Hok as [<-|[<-|[<-|[]]]]; reflexivity.
    - injection Hs as <- <-. cbn in Hok. repeat split; [cbn; rewrite Hok; reflexivity|repeat constructor].
    - injection Hs as <- <-. cbn in Hok. destruct Hok as [Hk Hl].
      repeat split; [| |repeat constructor]; [intro acc|]; destruct Hk as [<-|[<-|[]]]; cbn; rewrite ?Hl; reflexivity.
    - injection Hs as <- <-. cbn in Hok. destruct Hok as [Hk Hy].
      repeat split; [| |repeat constructor]; [intro acc|]; destruct Hk as [<-|[<-|[]]]; try reflexivity;
        destruct Hy as [<-|[<-|[]]]; reflexivity.
    - injection Hs as <- <-. cbn in Hok. repeat split; [cbn; rewrite Hok; reflexivity|repeat constructor].
    - injection Hs as <- <-. destruct b; repeat split; constructor.
  Qed.

  Lemma run_stmt s its : stmt_items s its -> forall rest acc, run (its ++ rest) (acc, KTop) = run rest (s :: acc, KTop).
  Proof.
    intros H rest acc. destruct H as [s kw args k Hs Hok|m lines litems k1 k2 Hl|n md mits k Hmd].
    - destruct (simple_sound _ _ _ Hs Hok) as [Hkw [Hmk Hargs]].
      cbn [app run]. rewrite Hkw. rewrite <- app_assoc. rewrite (run_args _ Hargs).
      unfold nls. cbn [repeat app run step]. rewrite app_nil_r, rev_involutive, Hmk. apply run_nls_top.
    - cbn [app run step String.eqb Ascii.eqb Bool.eqb]. unfold nls at 1. cbn [repeat app run step].
      rewrite <- app_assoc. rewrite run_nls_dtop. rewrite <- app_assoc. rewrite (run_lines _ _ Hl).
      cbn [app run step String.eqb Ascii.eqb Bool.eqb]. unfold nls. cbn [repeat app run step]. apply run_nls_top.
    - cbn [app run step String.eqb Ascii.eqb Bool.eqb]. rewrite <- app_assoc. rewrite (run_model _ _ Hmd).
      unfold nls. cbn [repeat app run step finish]. apply run_nls_top.
  Qed.

  Lemma run_body ss its : body_items ss its -> forall rest acc, run (its ++ rest) (acc, KTop) = run rest ((rev ss ++ acc)%list, KTop).
  Proof.
    induction 1 as [|s ss i1 i2 Hs _ IH]; intros rest acc; [reflexivity|].
    rewrite <- app_assoc. rewrite (run_stmt _ _ Hs). rewrite IH. cbn [rev]. rewrite <- app_assoc. reflexivity.
  Qed.

  Theorem parse_file_items ss its : file_items ss its -> parse_items its = Some ss.
  Proof.
    intros H. unfold ItemParser.parse_items. destruct H as [k0 ss its Hb|k0 ss its k Hb].
    - rewrite run_nls_top. rewrite <- (app_nil_r its). rewrite (run_body _ _ Hb). cbn. rewrite app_nil_r, rev_involutive. reflexivity.
    - rewrite run_nls_top. rewrite (run_body _ _ Hb). unfold nls. cbn [repeat app run step String.eqb Ascii.eqb Bool.eqb].
      assert (E : forall k acc, run (repeat INl k) (acc, KEnd1) = Some (acc, KEnd1)) by (induction k1 as [|k1 IH]; intro a; cbn; [reflexivity|apply IH]).
      rewrite E. rewrite app_nil_r, rev_involutive. reflexivity.
  Qed.

  (* closure of layouts under packaging: bodies concatenate, and a further line end after a non-empty body is again a layout *)
  Lemma body_items_app s1 i1 s2 i2 : body_items s1 i1 -> body_items s2 i2 -> body_items (s1 ++ s2) (i1 ++ i2).
  Proof. induction 1 as [|s ss j1 j2 Hs _ IH]; intro H2; [exact H2|]. cbn. rewrite <- app_assoc. constructor; [exact Hs|apply IH, H2]. Qed.
End P.
