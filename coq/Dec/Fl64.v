(* Fl64.v — IEEE-754 binary64 arithmetic, round to nearest even, on exact rationals (normal range only), and the floats
   print_decay_modes computes before formatting:  float(literal)  (CPython's correctly rounded string -> float),
   sum() of floats (CPython 3.12: Neumaier's compensated summation, started from the first element), "/" .
   A float is represented by its exact rational value.  None: outside the normal range (overflow / subnormal: never the case
   for branching fractions; the correspondence then falls back to the candidates of Dec/Print.v).  No proofs here. *)
From Coq Require Import String Ascii List Bool ZArith QArith Qabs Arith.
From DL Require Import Dec.Num Dec.Fmt7 Dec.Print.
Import ListNotations.
Close Scope Q_scope.
Open Scope string_scope.
Local Open Scope Z_scope.

Definition q_ge_pow2 (a b e : Z) : bool :=          (* 2^e <= a/b *)
  if 0 <=? e then (2 ^ e * b <=? a) else (b <=? a * 2 ^ (- e)).

(* floor(log2 (a/b)) for a, b > 0 *)
Definition ilog2 (a b : Z) : Z :=
  let e0 := Z.log2 a - Z.log2 b in if q_ge_pow2 a b e0 then e0 else e0 - 1.

(* the binary64 nearest to a/b (a, b > 0), ties to even: (m, k) with 2^52 <= m < 2^53, value m * 2^k *)
Definition scaled2 (a b e : Z) : Z * Z :=            (* p / q = (a/b) * 2^(52-e) *)
  if 0 <=? 52 - e then (a * 2 ^ (52 - e), b) else (a, b * 2 ^ (e - 52)).
Definition rnd64 (a b : Z) : option (Z * Z) :=
  let e := ilog2 a b in
  let '(p, q) := scaled2 a b e in
  let m := round_he p q in
  let '(m', e') := if m =? 2 ^ 53 then (2 ^ 52, e + 1) else (m, e) in
  if (-1022 <=? e') && (e' <=? 1023) then Some (m', e' - 52) else None.

Definition dyadic (m k : Z) : Q := if 0 <=? k then inject_Z (m * 2 ^ k) else Qred (Qmake m (Z.to_pos (2 ^ (- k)))).

(* round an exact rational to binary64 *)
Definition fl (x : Q) : option Q :=
  let a := Qnum x in let b := Zpos (Qden x) in
  if a =? 0 then Some 0%Q
  else match rnd64 (Z.abs a) b with
       | Some (m, k) => Some (if a <? 0 then Qopp (dyadic m k) else dyadic m k)
       | None => None
       end.

Definition obind {A B} (o : option A) (f : A -> option B) : option B := match o with Some x => f x | None => None end.

Definition fadd (x y : Q) : option Q := fl (Qred (x + y)).
Definition fsub (x y : Q) : option Q := fl (Qred (x - y)).
Definition fdiv (x y : Q) : option Q := if Qeq_bool y 0 then None else fl (Qred (x / y)).

(* builtin sum() of floats, CPython >= 3.12 (Python/bltinmodule.c): the running total starts as the first element
   (0 + x0 is exact), every further element is added with Neumaier's compensation, the compensation is added at the end *)
Fixpoint neumaier (f c : Q) (l : list Q) : option Q :=
  match l with
  | [] => if Qeq_bool c 0 then Some f else fadd f c
  | x :: r =>
      obind (fadd f x) (fun t =>
      obind (if Qle_bool (Qabs x) (Qabs f)
             then obind (fsub f t) (fun d => fadd d x)
             else obind (fsub x t) (fun d => fadd d f)) (fun corr =>
      obind (fadd c corr) (fun c' => neumaier t c' r)))
  end.
Definition fsum (l : list Q) : option Q :=
  match l with [] => Some 0%Q | x :: r => neumaier x 0%Q r end.

(* the texts print_decay_modes shows for the numbers of a table, row by row (None: refused / error / outside the range) *)
Definition shown_texts (o : popts) (tbl : option (list pline)) : option (list string) :=
  match print_rows o tbl, tbl with
  | POk _, Some lines =>
      let sorted := sort_lines (if o_ascending o then le_asc else le_desc) lines in
      obind ((fix go (l : list pline) : option (list Q) :=
                match l with [] => Some [] | x :: r => obind (fl (p_bf x)) (fun v => obind (go r) (fun vs => Some (v :: vs))) end) sorted)
      (fun bfs =>
         let norm : option Q :=
           if o_normalize o then fsum bfs
           else match o_scale o with
                | Some s => obind (fl s) (fun sf => fdiv (if o_ascending o then last bfs 0%Q else hd 0%Q bfs) sf)
                | None => Some 1%Q
                end in
         obind norm (fun n =>
           (fix go (l : list Q) : option (list string) :=
              match l with [] => Some [] | v :: r => obind (fdiv v n) (fun w => obind (go r) (fun ws => Some (fmt_g7 w :: ws))) end) bfs))
  | _, _ => None
  end.

(* observation: the rows of Dec/Print.v and, beside them, the exact texts of the numbers *)
From DL Require Import Lib.Val.
Definition vpres_fl (o : popts) (tbl : option (list pline)) : val :=
  VList [vpres (print_rows o tbl); match shown_texts o tbl with Some ts => VList (map VStr ts) | None => VNone end].
