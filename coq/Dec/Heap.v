(* Heap.v — parse()'s post-processing (src/decaylanguage/dec/dec.py:166-233) with OBJECT IDENTITY.

   Post.v computes the decay tables as values.  The real code works on Lark Tree / Token objects:
   it builds new trees (Transformer), copies them (copy.deepcopy, with its memo), and writes into
   Token.value in place (the two Visitors, CopyDecay's renaming).  Whether a write to one table can be
   seen through another is a question about which OBJECTS the tables share.  This file re-does the
   post-processing on identity-carrying trees:

     - a Tree object is  OTree id data children   (its children list is built once and never mutated),
     - a Token object is OTok id kind             (its .value lives in the token store, index id,
                                                   and is the only thing parse() mutates in place),
     - the state threads the token store and the next fresh Tree id.

   Two leaves carrying the same token id ARE the same Python object: a write through one is seen
   through the other.  Two nodes carrying the same tree id are the same Tree object.
   copy.deepcopy is modelled with its memo (shared objects inside the copied structure stay shared
   in the copy; the memo does not outlive the call).  No proofs here. *)
From Coq Require Import String Ascii List Bool ZArith QArith Arith.
From DL Require Import Lib.Val Lib.PyDict Lib.Sort Decay.Conj Decay.ChainDict Dec.Num Dec.Tables Dec.Syntax Dec.Post.
Import ListNotations.
Close Scope Q_scope.
Open Scope string_scope.

Inductive tval := TS (s : string) | TQ (q : Q).      (* Token.value: a str, after the value visitor possibly a float *)

Inductive ot :=
| OTok (id : nat) (kind : string)
| OTree (id : nat) (data : string) (ch : list ot).

Record hst := { h_toks : list tval; h_next : nat }.

Inductive herr := HValueError (l : string) | HTypeError | HShape.

(* ------------------------------------------------------------------ allocation *)
Definition M (A : Type) := hst -> A * hst.
Definition ret {A} (x : A) : M A := fun s => (x, s).
Definition bind {A B} (m : M A) (f : A -> M B) : M B := fun s => let '(x, s1) := m s in f x s1.
Notation "'do' x <- m ; k" := (bind m (fun x => k)) (at level 200, x name, m at level 100, k at level 200).

Definition mk_tok (k v : string) : M ot :=
  fun s => (OTok (length (h_toks s)) k, {| h_toks := h_toks s ++ [TS v]; h_next := h_next s |}).
Definition mk_tree (d : string) (ch : list ot) : M ot :=
  fun s => (OTree (h_next s) d ch, {| h_toks := h_toks s; h_next := S (h_next s) |}).

Fixpoint mapM {A B} (f : A -> M B) (l : list A) : M (list B) :=
  match l with
  | [] => ret []
  | x :: r => do y <- f x; do ys <- mapM f r; ret (y :: ys)
  end.

(* ------------------------------------------------------------------ the trees Lark builds (decay and model_alias statements) *)
Definition mk_particle (n : string) : M ot := do t <- mk_tok "LABEL" n; mk_tree "particle" [t].
Definition mk_value (lit : string) : M ot := do t <- mk_tok "SIGNED_NUMBER" lit; mk_tree "value" [t].
Definition mk_param (p : param) : M ot :=
  match p with PLit lit => mk_value lit | PLabel s => mk_tok "LABEL" s end.
Definition mk_model_children (m : dmodel) : M (list ot) :=
  match m with
  | MLabel l => do t <- mk_tok "LABEL" l; do x <- mk_tree "model_label" [t]; ret [x]
  | MName n None => do t <- mk_tok "MODEL_NAME" n; ret [t]
  | MName n (Some ps) => do t <- mk_tok "MODEL_NAME" n; do os <- mapM mk_param ps;
                         do o <- mk_tree "model_options" os; ret [t; o]
  end.
Definition mk_model (m : dmodel) : M ot := do ch <- mk_model_children m; mk_tree "model" ch.
Definition mk_line (d : dline) : M ot :=
  do v <- mk_value (d_bf d);
  do ps <- mapM mk_particle (d_fs d);
  do ph <- (if d_photos d then do x <- mk_tree "photos" []; ret [x] else ret []);
  do m <- mk_model (d_model d);
  mk_tree "decayline" (v :: ps ++ ph ++ [m]).
Definition mk_decay (m : string) (ls : list dline) : M ot :=
  do p <- mk_particle m; do lines <- mapM mk_line ls; mk_tree "decay" (p :: lines).
Definition mk_model_alias (n : string) (m : dmodel) : M ot :=
  do t <- mk_tok "LABEL" n; do l <- mk_tree "model_label" [t]; do mm <- mk_model m; mk_tree "model_alias" [l; mm].

(* the part of _parsed_dec_file that holds mutable-token trees relevant to the decay tables *)
Fixpoint mk_file (f : list stmt) : M (list ot) :=
  match f with
  | [] => ret []
  | SDecay m ls :: r => do t <- mk_decay m ls; do ts <- mk_file r; ret (t :: ts)
  | SModelAlias n m :: r => do t <- mk_model_alias n m; do ts <- mk_file r; ret (t :: ts)
  | _ :: r => mk_file r
  end.

(* ------------------------------------------------------------------ reading *)
Definition data_of (t : ot) : string := match t with OTree _ d _ => d | OTok _ _ => "" end.
Definition is_data (d : string) (t : ot) : bool := match t with OTree _ d' _ => String.eqb d d' | OTok _ _ => false end.
Definition tokval (h : list tval) (t : ot) : option tval :=
  match t with OTok i _ => nth_error h i | OTree _ _ _ => None end.
Definition tokstr (h : list tval) (t : ot) : option string :=
  match tokval h t with Some (TS s) => Some s | _ => None end.
(* tree.children[0].value for a one-token tree (particle, value, model_label) *)
Definition leafstr (h : list tval) (t : ot) : option string :=
  match t with OTree _ _ (x :: _) => tokstr h x | _ => None end.
(* get_decay_mother_name: tree.children[0].children[0].value *)
Definition mother_of (h : list tval) (t : ot) : option string :=
  match t with OTree _ _ (p :: _) => leafstr h p | _ => None end.
Definition mother_tok (t : ot) : option nat :=
  match t with OTree _ _ (OTree _ _ (OTok i _ :: _) :: _) => Some i | _ => None end.

Fixpoint upd {A} (i : nat) (v : A) (l : list A) : list A :=
  match l, i with
  | [], _ => []
  | _ :: r, 0 => v :: r
  | x :: r, S j => x :: upd j v r
  end.
Definition write (i : nat) (v : tval) (s : hst) : hst := {| h_toks := upd i v (h_toks s); h_next := h_next s |}.

(* ------------------------------------------------------------------ _check_parsed_decays: the first tree per mother stays *)
Fixpoint dedupe_h (h : list tval) (seen : list string) (ts : list ot) : list ot :=
  match ts with
  | [] => []
  | t :: r => match mother_of h t with
              | Some m => if smem m seen then dedupe_h h seen r else t :: dedupe_h h (m :: seen) r
              | None => t :: dedupe_h h seen r
              end
  end.

(* ------------------------------------------------------------------ copy.deepcopy with its memo *)
Record memo := { m_tok : list (nat * nat); m_node : list (nat * ot) }.
Definition memo0 : memo := {| m_tok := []; m_node := [] |}.
Fixpoint alook {B} (i : nat) (l : list (nat * B)) : option B :=
  match l with [] => None | (k, v) :: r => if Nat.eqb i k then Some v else alook i r end.

Fixpoint dcopy (t : ot) (m : memo) (s : hst) : ot * memo * hst :=
  match t with
  | OTok i k =>
      match alook i (m_tok m) with
      | Some j => (OTok j k, m, s)
      | None => let j := length (h_toks s) in
                (OTok j k, {| m_tok := (i, j) :: m_tok m; m_node := m_node m |},
                 {| h_toks := h_toks s ++ [nth i (h_toks s) (TS "")]; h_next := h_next s |})
      end
  | OTree i d ch =>
      match alook i (m_node m) with
      | Some c => (c, m, s)
      | None =>
          let '(ch', m1, s1) :=
            (fix go (l : list ot) (m : memo) (s : hst) : list ot * memo * hst :=
               match l with
               | [] => ([], m, s)
               | x :: r => let '(x', m1, s1) := dcopy x m s in
                           let '(r', m2, s2) := go r m1 s1 in (x' :: r', m2, s2)
               end) ch m s in
          let c := OTree (h_next s1) d ch' in
          (c, {| m_tok := m_tok m1; m_node := (i, c) :: m_node m1 |}, {| h_toks := h_toks s1; h_next := S (h_next s1) |})
      end
  end.
Fixpoint dcopy_list (l : list ot) (m : memo) (s : hst) : list ot * memo * hst :=
  match l with
  | [] => ([], m, s)
  | x :: r => let '(x', m1, s1) := dcopy x m s in
              let '(r', m2, s2) := dcopy_list r m1 s1 in (x' :: r', m2, s2)
  end.
(* copy.deepcopy(x): a fresh memo per call *)
Definition deepcopy (t : ot) : M ot := fun s => let '(c, _, s1) := dcopy t memo0 s in (c, s1).
Definition deepcopy_list (l : list ot) : M (list ot) := fun s => let '(c, _, s1) := dcopy_list l memo0 s in (c, s1).

(* ------------------------------------------------------------------ _dict_raw_model_aliases + the deepcopy of the dictionary *)
Definition alias_entry (h : list tval) (t : ot) : option (string * list ot) :=
  match t with
  | OTree _ _ [l; OTree _ _ body] => match leafstr h l with Some n => Some (n, body) | None => None end
  | _ => None
  end.

(* {name: copy.deepcopy(model.children) for tree in find_data("model_alias")} *)
Fixpoint raw_aliases (F : list ot) (acc : pdict (list ot)) : M (pdict (list ot)) :=
  match F with
  | [] => ret acc
  | t :: r =>
      if is_data "model_alias" t then
        fun s => match alias_entry (h_toks s) t with
                 | Some (n, body) => (do c <- deepcopy_list body; raw_aliases r (pd_set n c acc)) s
                 | None => raw_aliases r acc s
                 end
      else raw_aliases r acc
  end.

(* copy.deepcopy(dict): one memo for the whole dictionary *)
Fixpoint dcopy_dict (d : pdict (list ot)) (m : memo) (s : hst) : pdict (list ot) * memo * hst :=
  match d with
  | [] => ([], m, s)
  | (k, v) :: r => let '(v', m1, s1) := dcopy_list v m s in
                   let '(r', m2, s2) := dcopy_dict r m1 s1 in ((k, v') :: r', m2, s2)
  end.
Definition deepcopy_dict (d : pdict (list ot)) : M (pdict (list ot)) :=
  fun s => let '(c, _, s1) := dcopy_dict d memo0 s in (c, s1).

(* ------------------------------------------------------------------ DecayModelAliasReplacement (a Transformer: new Tree objects, same Tokens) *)
Definition ME (A : Type) := hst -> (A + herr) * hst.
Definition retE {A} (x : A) : ME A := fun s => (inl x, s).
Definition failE {A} (e : herr) : ME A := fun s => (inr e, s).
Definition bindE {A B} (m : ME A) (f : A -> ME B) : ME B :=
  fun s => match m s with (inl x, s1) => f x s1 | (inr e, s1) => (inr e, s1) end.
Definition liftE {A} (m : M A) : ME A := fun s => let '(x, s1) := m s in (inl x, s1).

Fixpoint transform (al : pdict (list ot)) (t : ot) : ME ot :=
  match t with
  | OTok i k => retE (OTok i k)
  | OTree i d ch =>
      bindE ((fix go (l : list ot) : ME (list ot) :=
                match l with
                | [] => retE []
                | x :: r => bindE (transform al x) (fun x' => bindE (go r) (fun r' => retE (x' :: r')))
                end) ch)
            (fun ch' =>
               if String.eqb d "model" then
                 match ch' with
                 | OTree _ _ (lbl :: _) :: _ =>          (* isinstance(treelist[0], Tree): a model_label *)
                     fun s => match tokstr (h_toks s) lbl with
                              | Some name =>
                                  match pd_get name al with
                                  | Some body => (bindE (liftE (deepcopy_list body)) (fun b => liftE (mk_tree "model" b))) s
                                  | None => (inr (HValueError name), s)
                                  end
                              | None => (inr HShape, s)
                              end
                 | _ => liftE (mk_tree "model" ch')
                 end
               else liftE (mk_tree d ch'))
  end.

Fixpoint mapME {A B} (f : A -> ME B) (l : list A) : ME (list B) :=
  match l with
  | [] => retE []
  | x :: r => bindE (f x) (fun y => bindE (mapME f r) (fun ys => retE (y :: ys)))
  end.

(* ------------------------------------------------------------------ DecayModelParamValueReplacement (a Visitor: writes Token.value in place) *)
Fixpoint subtrees_named (d : string) (t : ot) : list ot :=
  match t with
  | OTok _ _ => []
  | OTree i d' ch => (if String.eqb d d' then [t] else []) ++ flat_map (subtrees_named d) ch
  end.
Definition node_id (t : ot) : nat := match t with OTree i _ _ => i | OTok i _ => i end.
(* Tree.iter_subtrees never returns the same Tree object twice *)
Fixpoint dedupe_nodes (seen : list nat) (l : list ot) : list ot :=
  match l with
  | [] => []
  | t :: r => if existsb (Nat.eqb (node_id t)) seen then dedupe_nodes seen r else t :: dedupe_nodes (node_id t :: seen) r
  end.

Definition replace_child (defs : pdict Q) (c : ot) (h : list tval) : list tval + herr :=
  match c with
  | OTree _ _ (OTok i _ :: _) =>                 (* t.children[0].value = float(t.children[0].value) *)
      match nth_error h i with
      | Some (TS lit) => inl (upd i (TQ (numq lit)) h)
      | Some (TQ q) => inl h
      | None => inr HShape
      end
  | OTok i _ =>                                  (* AttributeError branch: a LABEL token *)
      match nth_error h i with
      | Some (TS s) =>
          match s with
          | String c rest =>
              if is_c c "-" then match pd_get rest defs with Some v => inl (upd i (TQ (- v)%Q) h) | None => inl h end
              else match pd_get s defs with Some v => inl (upd i (TQ v) h) | None => inl h end
          | EmptyString => inr HShape
          end
      | Some (TQ _) => inr HTypeError            (* t.value[0] on a float: 'float' object is not subscriptable *)
      | None => inr HShape
      end
  | _ => inr HShape
  end.

Fixpoint foldE {A} (f : A -> list tval -> list tval + herr) (l : list A) (h : list tval) : list tval + herr :=
  match l with
  | [] => inl h
  | x :: r => match f x h with inl h' => foldE f r h' | inr e => inr e end
  end.

Definition children_of (t : ot) : list ot := match t with OTree _ _ ch => ch | OTok _ _ => [] end.

Definition visit_params (defs : pdict Q) (t : ot) (h : list tval) : list tval + herr :=
  foldE (fun mo h => foldE (replace_child defs) (children_of mo) h)
        (dedupe_nodes [] (subtrees_named "model_options" t)) h.

(* ------------------------------------------------------------------ _add_decays_to_be_copied *)
Fixpoint find_last (h : list tval) (m : string) (ts : list ot) (acc : option ot) : option ot :=
  match ts with
  | [] => acc
  | t :: r => find_last h m r (match mother_of h t with
                               | Some m' => if String.eqb m m' then Some t else acc
                               | None => acc
                               end)
  end.

Fixpoint copy_decays (copies : list (string * string)) (D : list ot) : M (list ot) :=
  match copies with
  | [] => ret []
  | (new, old) :: r =>
      fun s => match find_last (h_toks s) old D None with
               | Some src =>
                   (do c <- deepcopy src;
                    do cs <- (fun s1 => copy_decays r D (match mother_tok c with Some i => write i (TS new) s1 | None => s1 end));
                    ret (c :: cs)) s
               | None => copy_decays r D s
               end
  end.

(* ------------------------------------------------------------------ _add_charge_conjugate_decays *)
Definition particle_toks (t : ot) : list nat :=
  (* the visit order of Visitor.visit / iter_subtrees on a decay tree: daughters line by line, then the mother *)
  match t with
  | OTree _ _ (p :: lines) =>
      flat_map (fun l => flat_map (fun c => if is_data "particle" c then
                                              match c with OTree _ _ (OTok i _ :: _) => [i] | _ => [] end else [])
                                  (children_of l)) lines
      ++ match p with OTree _ _ (OTok i _ :: _) => [i] | _ => [] end
  | _ => []
  end.

Definition cc_visit (ccdb : string -> string) (acc : pdict string * list tval) (i : nat) : pdict string * list tval :=
  let '(d, h) := acc in
  match nth_error h i with
  | Some (TS p) => let c := cc_match ccdb d p in (pd_set p c d, upd i (TS c) h)
  | _ => (d, h)
  end.

Definition mothers_h (h : list tval) (D : list ot) : list string :=
  flat_map (fun t => match mother_of h t with Some m => [m] | None => [] end) D.

Definition cc_names_h (cdecays mothers : list string) : list string :=
  fold_left (fun l d => remove_one d l) (filter (fun n => smem n mothers) cdecays) cdecays.

Fixpoint cc_copy (ts : list ot) : M (list ot) :=          (* [copy.deepcopy(tree) for tree in trees_to_conjugate] *)
  match ts with [] => ret [] | t :: r => do c <- deepcopy t; do cs <- cc_copy r; ret (c :: cs) end.

(* one deep-copied tree: the _is_not_self_conj test, then a ChargeConjugateReplacement visitor over it;
   `charge_conj_defs or {}`: an empty dictionary is replaced by a private one per visitor *)
Definition cc_step (ccdb : string -> string) (selfconj : string -> option bool)
                   (acc : pdict string * list tval) (t : ot) : pdict string * list tval :=
  let '(d, h) := acc in
  match mother_of h t with
  | Some m =>
      match selfconj m with
      | Some true => (d, h)
      | _ => match d with
             | [] => (d, snd (fold_left (cc_visit ccdb) (particle_toks t) ([], h)))
             | _ => fold_left (cc_visit ccdb) (particle_toks t) (d, h)
             end
      end
  | None => (d, h)
  end.

Definition cc_decays (ccdb : string -> string) (selfconj : string -> option bool)
                     (cdecays : list string) (ccdefs : pdict string) (D : list ot) : M (list ot) :=
  fun s =>
    let h := h_toks s in
    match cc_names_h cdecays (mothers_h h D) with
    | [] => ([], s)
    | names =>
        let srcs := flat_map (fun X => match find_last h (cc_match ccdb ccdefs X) D None with
                                       | Some t => [t] | None => [] end) names in
        let '(cs, s1) := cc_copy srcs s in
        let h2 := snd (fold_left (cc_step ccdb selfconj) cs (ccdefs, h_toks s1)) in
        (cs, {| h_toks := h2; h_next := h_next s1 |})
    end.

(* ------------------------------------------------------------------ parse() *)
Record hres := { r_state : hst; r_file : list ot; r_decays : list ot }.

Definition parse_heap (ccdb : string -> string) (selfconj : string -> option bool) (include_cc : bool)
                      (f : list stmt) : hres + herr :=
  let s0 := {| h_toks := []; h_next := 0 |} in
  let '(F, s1) := mk_file f s0 in
  let D0 := dedupe_h (h_toks s1) [] (filter (is_data "decay") F) in
  let '(al0, s2) := raw_aliases F [] s1 in
  let '(al, s3) := deepcopy_dict al0 s2 in
  match mapME (transform al) D0 s3 with
  | (inr e, _) => inr e
  | (inl D1, s4) =>
      match foldE (visit_params (defs_of f)) D1 (h_toks s4) with
      | inr e => inr e
      | inl h5 =>
          let s5 := {| h_toks := h5; h_next := h_next s4 |} in
          let '(cps, s6) := copy_decays (copies_of f) D1 s5 in
          let D2 := (D1 ++ cps)%list in
          if include_cc then
            let '(ccs, s7) := cc_decays ccdb selfconj (cdecays_of f) (ccdefs_of f) D2 s6 in
            inl {| r_state := s7; r_file := F; r_decays := (D2 ++ ccs)%list |}
          else inl {| r_state := s6; r_file := F; r_decays := D2 |}
      end
  end.

(* ------------------------------------------------------------------ abstraction: the decay tables a heap state denotes *)
Definition read_param (h : list tval) (c : ot) : option pval :=
  match c with
  | OTree _ _ (x :: _) => match tokval h x with Some (TQ q) => Some (PNum q) | Some (TS lit) => Some (PWord lit) | None => None end
  | OTok _ _ => match tokval h c with Some (TQ q) => Some (PNum q) | Some (TS s) => Some (PWord s) | None => None end
  | _ => None
  end.

Fixpoint mapO {A B} (f : A -> option B) (l : list A) : option (list B) :=
  match l with
  | [] => Some []
  | x :: r => match f x, mapO f r with Some y, Some ys => Some (y :: ys) | _, _ => None end
  end.

Definition read_model (h : list tval) (m : ot) : option (string * option (list pval)) :=
  match m with
  | OTree _ _ [n] => match tokstr h n with Some s => Some (s, None) | None => None end
  | OTree _ _ [n; OTree _ _ os] =>
      match tokstr h n, mapO (read_param h) os with Some s, Some ps => Some (s, Some ps) | _, _ => None end
  | _ => None
  end.

Definition read_line (h : list tval) (l : ot) : option line :=
  match l with
  | OTree _ _ (v :: rest) =>
      match leafstr h v, rev rest with
      | Some bf, m :: mid =>
          let mid := rev mid in
          let photos := existsb (is_data "photos") mid in
          match mapO (leafstr h) (filter (is_data "particle") mid), read_model h m with
          | Some fs, Some (n, prm) =>
              Some {| l_bf := numq bf; l_fs := fs; l_photos := photos; l_model := n; l_params := prm |}
          | _, _ => None
          end
      | _, _ => None
      end
  | _ => None
  end.

Definition read_table (h : list tval) (t : ot) : option table :=
  match t with
  | OTree _ _ (p :: lines) =>
      match leafstr h p, mapO (read_line h) lines with Some m, Some ls => Some (m, ls) | _, _ => None end
  | _ => None
  end.

Definition tables_of (r : hres) : option (list table) := mapO (read_table (h_toks (r_state r))) (r_decays r).

(* ------------------------------------------------------------------ identities *)
Fixpoint tok_ids (t : ot) : list nat :=
  match t with OTok i _ => [i] | OTree _ _ ch => flat_map tok_ids ch end.
Fixpoint node_ids (t : ot) : list nat :=
  match t with OTok _ _ => [] | OTree i _ ch => i :: flat_map node_ids ch end.

(* ------------------------------------------------------------------ observation *)
(* the object graph in preorder: ("T", id) for a Tree, ("K", id) for a Token; the harness renumbers
   both sides by first occurrence, so equal skeletons mean: the same shape and the same sharing *)
Fixpoint skel (t : ot) : list val :=
  match t with
  | OTok i k => [VList [VStr "K"; VInt (Z.of_nat i); VStr k]]
  | OTree i d ch => VList [VStr "T"; VInt (Z.of_nat i); VStr d; VInt (Z.of_nat (length ch))] :: flat_map skel ch
  end.

Definition vheap (r : hres + herr) : val :=
  match r with
  | inr (HValueError _) => VErr "ValueError"
  | inr HTypeError => VErr "TypeError"
  | inr HShape => VErr "Shape"
  | inl res =>
      VList [match tables_of res with Some T => vtables T | None => VErr "Unreadable" end;
             VList (flat_map skel (r_file res ++ r_decays res))]
  end.
