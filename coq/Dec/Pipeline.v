(* Pipeline.v — from the TEXT of a .dec file to the answers of the table queries, in one piece:
   front end (Dec/FrontEnd.v over the regenerated configuration), parse() (Dec/Post.v), build_decay_chains (Dec/Tables.v),
   expand_decay_modes (Decay/ChainDict.v).  The harnesses of C09 / C10 hand the model the same text the implementation
   reads — nothing is pre-digested in Python.  No proofs here (the pieces are proved where they are defined). *)
From Coq Require Import String Ascii List Bool ZArith QArith Arith.
From DL Require Import Lib.Val Lib.PyDict Fmt.DescFormat Decay.ChainDict Dec.Num Dec.Syntax Dec.Tables Dec.Layout Dec.ItemParser
                       Dec.FrontEnd Dec.Post Dec.Whole Gen.GenLayout.
Import ListNotations.
Close Scope Q_scope.
Open Scope string_scope.

Section Pipe.
Variable ccdb : string -> string.
Variable sc : string -> option bool.

(* the statements and the tables parse() leaves (charge-conjugate decays included); None: the text is rejected *)
Definition read_dec (s : string) : option (list stmt * list table) :=
  match parse_text gen_cfg s with
  | Some f => match parse_post ccdb sc true f with inl T => Some (f, T) | inr _ => None end
  | None => None
  end.

(* build_decay_chains(m, stable_particles = S) *)
Definition text_chain (fuel : nat) (s : string) (S : list string) (m : string) : val :=
  match read_dec s with
  | Some (_, T) => vbuild (build fuel T S m)
  | None => VErr "rejected"
  end.

(* expand_decay_modes(m) with the default descriptor patterns *)
Definition text_descriptors (fuel : nat) (s : string) (m : string) : val :=
  match read_dec s with
  | Some (f, T) =>
      match build fuel T [] m with
      | Some (Some c) => vstrs (expand default_cfg (aliases_of f) true c)
      | Some None => VErr "DecayNotFound"
      | None => VErr "OutOfFuel"
      end
  | None => VErr "rejected"
  end.
End Pipe.
