(* ChainsProofs.v — build_decay_chains is the recursive unfolding of the tables (property C09). *)
From Coq Require Import String Ascii List Bool ZArith QArith Arith Lia.
From DL Require Import Lib.Val Lib.PyDict Decay.ChainDict Dec.Tables.
Import ListNotations.
Close Scope Q_scope.
Open Scope string_scope.
Open Scope list_scope.

(* ------------------------------------------------------------------ the specification *)
(* the chain for m: one entry per decay line of m's (first) table, in order, carrying that line's
   bf / model / parameters; each daughter is its bare name when it is in S or has no table,
   otherwise the chain built for that daughter with the same S *)
Inductive unfolds (T : list table) (S : list string) : string -> cdict -> Prop :=
| U_chain m lines modes :
    find_table m T = Some lines ->
    Forall2 (unfold_line T S) lines modes ->
    unfolds T S m (CD m modes)
with unfold_line (T : list table) (S : list string) : line -> cmode -> Prop :=
| U_line l fs :
    Forall2 (unfold_d T S) (l_fs l) fs ->
    unfold_line T S l (CM (l_bf l) fs (line_meta false l))
with unfold_d (T : list table) (S : list string) : string -> fsp -> Prop :=
| U_stable d : In d S -> unfold_d T S d (FName d)
| U_notable d : ~ In d S -> find_table d T = None -> unfold_d T S d (FName d)
| U_sub d c : ~ In d S -> unfolds T S d c -> unfold_d T S d (FSub c).

Lemma smem_in x l : smem x l = true <-> In x l.
Proof.
  unfold smem. rewrite existsb_exists. split.
  - intros [y [Hy E]]. apply String.eqb_eq in E. subst. assumption.
  - intros H. exists x. split; [assumption | apply String.eqb_refl].
Qed.

Lemma mapM_Forall2 {A B} (f : A -> option B) (R : A -> B -> Prop) l ys :
  (forall x y, In x l -> f x = Some y -> R x y) -> mapM f l = Some ys -> Forall2 R l ys.
Proof.
  revert ys. induction l as [|x r IH]; simpl; intros ys H E.
  - inversion E. constructor.
  - destruct (f x) as [y|] eqn:Ex; [|discriminate]. destruct (mapM f r) as [ys'|] eqn:Er; [|discriminate].
    inversion E; subst. constructor; [apply H; auto | apply IH; auto].
Qed.

(* soundness: whatever build returns (with any fuel) is the unfolding *)
Theorem build_sound T S : forall fuel m c, build fuel T S m = Some (Some c) -> unfolds T S m c.
Proof.
  induction fuel as [|f IH]; intros m c H; simpl in H; [discriminate|].
  destruct (find_table m T) as [lines|] eqn:Ef; [|discriminate].
  match type of H with match ?X with _ => _ end = _ => destruct X as [modes|] eqn:Em; [|discriminate] end.
  inversion H; subst. econstructor; [eassumption|].
  eapply mapM_Forall2; [|exact Em]. intros l md _ Hl. simpl in Hl.
  match type of Hl with match ?X with _ => _ end = _ => destruct X as [fs|] eqn:Efs; [|discriminate] end.
  inversion Hl; subst. constructor.
  eapply mapM_Forall2; [|exact Efs]. intros d fp _ Hd. simpl in Hd.
  destruct (smem d S) eqn:Es.
  - inversion Hd; subst. apply U_stable. apply smem_in. assumption.
  - assert (Hns : ~ In d S) by (intros Hin; apply smem_in in Hin; congruence).
    destruct (build f T S d) as [[c'|]|] eqn:Eb; inversion Hd; subst.
    + apply U_sub; [assumption | apply IH; assumption].
    + apply U_notable; [assumption|]. destruct f; simpl in Eb; [discriminate|].
      destruct (find_table d T); [|reflexivity].
      match type of Eb with match ?X with _ => _ end = _ => destruct X; discriminate end.
Qed.

(* the documented not-found error, exactly when the particle has no table *)
Theorem build_not_found T S fuel m : build (Datatypes.S fuel) T S m = Some None <-> find_table m T = None.
Proof.
  simpl. destruct (find_table m T); split; intros H; try discriminate; try reflexivity.
  match type of H with match ?X with _ => _ end = _ => destruct X; discriminate end.
Qed.

(* the specification determines the chain *)
Section Det.
Variables (T : list table) (S : list string).

Lemma Forall2_det {A B} (R : A -> B -> Prop) l :
  Forall (fun a => forall b b', R a b -> R a b' -> b = b') l ->
  forall ys ys', Forall2 R l ys -> Forall2 R l ys' -> ys = ys'.
Proof.
  induction 1 as [|a l Ha Hl IH]; intros ys ys' H1 H2; inversion H1; inversion H2; subst; [reflexivity|].
  f_equal; [eapply Ha; eassumption | apply IH; assumption].
Qed.

Fixpoint csize (c : cdict) : nat :=
  match c with
  | CD _ modes => Datatypes.S (fold_right (fun md acc =>
       match md with CM _ fs _ => fold_right (fun f a => match f with FName _ => 1 | FSub c' => csize c' end + a) 1 fs end + acc) 0 modes)
  end.

Theorem unfolds_det : forall n m c c', csize c < n -> unfolds T S m c -> unfolds T S m c' -> c = c'.
Proof.
  induction n as [|n IH]; intros m c c' Hn H1 H2; [lia|].
  inversion H1 as [m1 lines modes Hf Hl]; inversion H2 as [m2 lines' modes' Hf' Hl']; subst.
  rewrite Hf in Hf'. inversion Hf'; subst lines'. f_equal.
  clear H1 H2 Hf Hf'. revert modes' Hl'. simpl in Hn.
  induction Hl as [|l md ls mds Hmd Hrest IHl]; intros modes' Hl'; inversion Hl'; subst; [reflexivity|].
  f_equal.
  - inversion Hmd as [l1 fs Hfs]; subst.
    match goal with H : unfold_line _ _ l _ |- _ => inversion H as [l2 fs' Hfs']; subst end.
    f_equal. simpl in Hn.
    assert (Hsz : fold_right (fun f a => match f with FName _ => 1 | FSub c' => csize c' end + a) 1 fs < n) by lia.
    clear - IH Hfs Hfs' Hsz. revert fs' Hfs'.
    induction Hfs as [|d fp ds fps Hd Hr IHr]; intros fs' Hfs'; inversion Hfs'; subst; [reflexivity|].
    simpl in Hsz. f_equal.
    + match goal with H : unfold_d _ _ d _ |- _ => rename H into Hd' end.
      inversion Hd; inversion Hd'; subst; try reflexivity; try contradiction.
      * match goal with H : unfolds _ _ d _ |- _ => inversion H; congruence end.
      * match goal with H : unfolds _ _ d _ |- _ => inversion H; congruence end.
      * f_equal. eapply IH; [|eassumption|eassumption]. lia.
    + apply IHr; [|assumption]. destruct fp; lia.
  - apply IHl; [|assumption]. simpl in Hn. destruct md. lia.
Qed.
End Det.

(* termination under acyclicity: a rank that strictly decreases from a mother to each daughter
   that is unfolded (not in S, has a table) *)
Definition acyclic (T : list table) (S : list string) (rank : string -> nat) : Prop :=
  forall m lines l d, find_table m T = Some lines -> In l lines -> In d (l_fs l) ->
    ~ In d S -> find_table d T <> None -> rank d < rank m.

Lemma mapM_some {A B} (f : A -> option B) l : (forall x, In x l -> f x <> None) -> mapM f l <> None.
Proof.
  induction l as [|x r IH]; simpl; intros H; [discriminate|].
  destruct (f x) eqn:Ex; [|exfalso; eapply H; [left; reflexivity | exact Ex]].
  destruct (mapM f r) eqn:Er; [discriminate|]. exfalso. apply IH; [|reflexivity]. intros y Hy. apply H. right. assumption.
Qed.

Theorem build_terminates T S rank : acyclic T S rank ->
  forall n m, rank m + 1 < n -> build n T S m <> None.
Proof.
  intros Hac. induction n as [|n IH]; intros m Hr; [lia|]. simpl.
  destruct (find_table m T) as [lines|] eqn:Ef; [|discriminate].
  match goal with |- match ?X with _ => _ end <> _ => assert (Hm : X <> None) end.
  { apply mapM_some. intros l Hl.
    match goal with |- match ?X with _ => _ end <> _ => assert (Hd : X <> None) end.
    { apply mapM_some. intros d Hd. destruct (smem d S) eqn:Es; [discriminate|].
      destruct (find_table d T) eqn:Efd.
      - assert (rank d < rank m).
        { eapply Hac; try eassumption; [intros Hin; apply smem_in in Hin; congruence | congruence]. }
        assert (Hdn : rank d + 1 < n) by lia. specialize (IH d Hdn). destruct (build n T S d) as [[?|]|]; congruence.
      - destruct n; [lia|]. simpl. rewrite Efd. discriminate. }
    destruct (mapM _ (l_fs l)); [discriminate | congruence]. }
  destruct (mapM _ lines); [discriminate | congruence].
Qed.
