(* Syntax.v — the statement language of .dec files, as the Lark tree presents it to dec.py. *)
From Coq Require Import String Ascii List Bool ZArith QArith Arith.
From DL Require Import Lib.Val Lib.PyDict Dec.Num.
Import ListNotations.
Close Scope Q_scope.
Open Scope string_scope.

(* a child of a model_options node: Tree(value,[SIGNED_NUMBER]) or a LABEL token *)
Inductive param := PLit (lit : string) | PLabel (s : string).

(* the children of a `model` node *)
Inductive dmodel :=
| MLabel (l : string)                              (* model_label: a ModelAlias name (or an undefined word) *)
| MName (n : string) (opts : option (list param)). (* MODEL_NAME model_options? *)

Record dline := { d_bf : string; d_fs : list string; d_photos : bool; d_model : dmodel }.

Inductive stmt :=
| SDecay (m : string) (lines : list dline)
| SDefine (n lit : string)
| SAlias (a b : string)
| SChargeConj (a b : string)
| SCDecay (m : string)
| SCopyDecay (new old : string)
| SModelAlias (n : string) (m : dmodel)
| SParticle (n mass : string) (width : option string)
| SPythia (kind modl par value : string)
| SJetSet (label lit : string)
| SLS (kind p : string)
| SBW (p lit : string)
| SChangeMass (kind p lit : string)
| SIncFactor (kind p yn : string)
| SLSPW (m d1 d2 lit : string)
| SPhotos (on : bool).
