(* LayoutProofs.v — the scanner reads every spelling of an item list back as that list: any white space between items (none
   needed next to a separator), a line end written LF or CR LF, comments (each a line end of its own) before a line end or at
   the end of the text; and the constructor's text is the concatenation of the kept lines of its files. *)
From Coq Require Import String Ascii List Bool Arith Lia.
From DL Require Import Dec.ModelName Dec.Layout.
Import ListNotations.
Open Scope string_scope.

Lemma append_nil_r (s : string) : s ++ "" = s.
Proof. induction s as [|c s IH]; cbn; [reflexivity|rewrite IH; reflexivity]. Qed.
Lemma append_assoc (a b c : string) : (a ++ b) ++ c = a ++ (b ++ c).
Proof. induction a as [|x a IH]; cbn; [reflexivity|rewrite IH; reflexivity]. Qed.

Section S.
  Variables lc wc : string.
  Notation classify := (classify lc wc).
  Notation scan := (scan lc wc).

  Fixpoint all_label (w : string) : Prop :=
    match w with EmptyString => True | String c r => classify c = CLabel /\ all_label r end.
  Definition no_label_head (s : string) : Prop :=
    match s with EmptyString => True | String c _ => classify c <> CLabel end.
  Fixpoint no_lf (s : string) : Prop :=
    match s with EmptyString => True | String c r => Ascii.eqb c LF = false /\ no_lf r end.
  Definition sep_item (k : cclass) : option item :=
    match k with CSemi => Some ISemi | CComma => Some IComma | CColon => Some IColon | CEq => Some IEq | _ => None end.

  (* s is a spelling of the items *)
  Inductive spell : list item -> string -> Prop :=
  | sp_nil : spell [] ""
  | sp_ws c s its : classify c = CWs -> spell its s -> spell its (String c s)
  | sp_word w s its : w <> "" -> all_label w -> no_label_head s -> spell its s -> spell (IWord w :: its) (w ++ s)
  | sp_sep c i s its : sep_item (classify c) = Some i -> spell its s -> spell (i :: its) (String c s)
  | sp_lf c s its : classify c = CLf -> spell its s -> spell (INl :: its) (String c s)
  | sp_crlf c s its : classify c = CCr -> spell its s -> spell (INl :: its) (String c (String LF s))
  | sp_comment c body s its : classify c = CHash -> no_lf body -> spell its s ->
      spell (INl :: INl :: its) (String c (body ++ String LF s))
  | sp_comment_eof c body : classify c = CHash -> no_lf body -> spell [INl] (String c body).

  Lemma scan_flush u s : no_label_head s -> scan s (MWord u) = IWord u :: scan s MNone.
  Proof. destruct s as [|c r]; cbn; [reflexivity|]. intro H. destruct (classify c); try reflexivity. contradiction. Qed.

  Lemma scan_word w : all_label w -> forall u s, no_label_head s -> scan (w ++ s) (MWord u) = IWord (u ++ w) :: scan s MNone.
  Proof.
    induction w as [|c w IH]; intros Hw u s Hs.
    - cbn [append]. rewrite append_nil_r. apply scan_flush, Hs.
    - destruct Hw as [Hc Hw]. cbn [append scan]. rewrite Hc. cbn [word_of]. rewrite (IH Hw _ _ Hs).
      unfold snoc. rewrite append_assoc. reflexivity.
  Qed.

  Lemma scan_comment body : no_lf body -> forall s, scan (body ++ String LF s) MComment = INl :: scan s MNone.
  Proof.
    induction body as [|c b IH]; intros H s.
    - cbn. reflexivity.
    - destruct H as [Hc Hb]. cbn [append scan]. rewrite Hc. apply IH, Hb.
  Qed.
  Lemma scan_comment_eof body : no_lf body -> scan body MComment = [].
  Proof. induction body as [|c b IH]; intro H; [reflexivity|]. destruct H as [Hc Hb]. cbn [scan]. rewrite Hc. apply IH, Hb. Qed.

  Theorem scan_spell its s : spell its s -> scan s MNone = its.
  Proof.
    induction 1 as [|c s its Hc _ IH|w s its Hne Hw Hs _ IH|c i s its Hc _ IH|c s its Hc _ IH|c s its Hc _ IH|c body s its Hc Hb _ IH|c body Hc Hb].
    - reflexivity.
    - cbn [scan]. rewrite Hc. cbn. exact IH.
    - destruct w as [|c w]; [contradiction|]. destruct Hw as [Hc Hw]. cbn [append scan]. rewrite Hc. cbn [word_of].
      rewrite (scan_word _ Hw _ _ Hs). unfold snoc. cbn [append]. rewrite IH. reflexivity.
    - cbn [scan]. destruct (classify c); cbn in Hc; try discriminate; injection Hc as <-; cbn; rewrite IH; reflexivity.
    - cbn [scan]. rewrite Hc. cbn. rewrite IH. reflexivity.
    - cbn [scan]. rewrite Hc. cbn. rewrite IH. reflexivity.
    - cbn [scan]. rewrite Hc. cbn [flush app]. rewrite (scan_comment _ Hb). rewrite IH. reflexivity.
    - cbn [scan]. rewrite Hc. cbn [flush app]. rewrite (scan_comment_eof _ Hb). reflexivity.
  Qed.

  (* a text that ends a line can be continued by any other text: the items are concatenated *)
  Hypothesis lf_class : classify LF = CLf.

  Lemma scan_app_lf s1 : forall m t, scan (s1 ++ String LF t) m = (scan (s1 ++ String LF "") m ++ scan t MNone)%list.
  Proof.
    induction s1 as [|c r IH]; intros m t.
    - cbn [append scan]. destruct m; rewrite ?lf_class; cbn; rewrite ?app_nil_r; try reflexivity.
    - cbn [append scan]. destruct m as [|u| |].
      + destruct (classify c); rewrite IH; cbn; reflexivity.
      + destruct (classify c); rewrite IH; cbn; reflexivity.
      + destruct (Ascii.eqb c LF); rewrite IH; reflexivity.
      + destruct (Ascii.eqb c LF); rewrite IH; reflexivity.
  Qed.
End S.

(* ------------------------------------------------------------------ the constructor *)
Definition cat (l : list string) : string := fold_right append "" l.
Lemma concat_cat l : String.concat "" l = cat l.
Proof.
  induction l as [|x xs IH]; [reflexivity|]. cbn [String.concat cat fold_right].
  destruct xs as [|y ys]; [cbn; rewrite append_nil_r; reflexivity|]. rewrite IH. reflexivity.
Qed.
Lemma cat_app (a b : list string) : cat (a ++ b)%list = cat a ++ cat b.
Proof. unfold cat. induction a as [|x a IH]; cbn [app fold_right append]; [reflexivity|]. rewrite IH, append_assoc. reflexivity. Qed.

Fixpoint no_cr (s : string) : Prop :=
  match s with EmptyString => True | String c r => Ascii.eqb c CR = false /\ no_cr r end.

Lemma lines_aux_body b : no_lf b -> forall cur r, lines_aux (b ++ String LF r) cur = (cur ++ b ++ String LF "") :: lines_aux r "".
Proof.
  induction b as [|c b IH]; intros H cur r.
  - cbn. reflexivity.
  - destruct H as [Hc Hb]. cbn [append lines_aux]. rewrite Hc. rewrite (IH Hb). rewrite append_assoc. reflexivity.
Qed.
Definition last_line (last : string) : list string := match last with EmptyString => [] | _ => [last] end.
Lemma lines_aux_last b : no_lf b -> forall cur, lines_aux b cur = last_line (cur ++ b).
Proof.
  induction b as [|c b IH]; intros H cur.
  - cbn. rewrite append_nil_r. reflexivity.
  - destruct H as [Hc Hb]. cbn [lines_aux]. rewrite Hc. rewrite (IH Hb). rewrite append_assoc. reflexivity.
Qed.

Definition eol (crlf : bool) : string := if crlf then String CR (String LF "") else String LF "".
(* a file: lines (text without line end, CR LF or LF) and a last piece without line end (possibly empty) *)
Fixpoint text_of_lines (ls : list (string * bool)) (last : string) : string :=
  match ls with [] => last | (b, e) :: r => b ++ eol e ++ text_of_lines r last end.
Definition lf_lines (ls : list (string * bool)) : list string := map (fun be => fst be ++ String LF "") ls.
Definition line_ok (b : string) : Prop := no_lf b /\ no_cr b.

Lemma univ_nl_body b : no_cr b -> forall r, univ_nl (b ++ r) = b ++ univ_nl r.
Proof.
  induction b as [|c b IH]; intros H r; [reflexivity|]. destruct H as [Hc Hb]. cbn [append univ_nl]. rewrite Hc. rewrite (IH Hb). reflexivity.
Qed.
Lemma univ_nl_id b : no_cr b -> univ_nl b = b.
Proof. intro H. rewrite <- (append_nil_r b) at 1. rewrite (univ_nl_body _ H). cbn. apply append_nil_r. Qed.

Lemma univ_text ls last : Forall (fun be => line_ok (fst be)) ls -> no_cr last ->
  univ_nl (text_of_lines ls last) = cat (lf_lines ls) ++ last.
Proof.
  intros H Hl. induction H as [|[b e] ls [_ Hb] _ IH]; cbn [text_of_lines lf_lines map cat fold_right fst].
  - apply univ_nl_id, Hl.
  - rewrite (univ_nl_body _ Hb). destruct e; cbn [eol append univ_nl Ascii.eqb Bool.eqb]; fold (lf_lines ls); fold (cat (lf_lines ls));
      rewrite IH; rewrite !append_assoc; reflexivity.
Qed.

Lemma lines_of_text ls last : Forall (fun be => line_ok (fst be)) ls -> no_lf last ->
  lines_of (cat (lf_lines ls) ++ last) = (lf_lines ls ++ last_line last)%list.
Proof.
  intros H Hl. unfold lines_of. induction H as [|[b e] ls [Hb _] _ IH]; cbn [lf_lines map cat fold_right fst app].
  - cbn. rewrite (lines_aux_last _ Hl). cbn. reflexivity.
  - fold (lf_lines ls). fold (cat (lf_lines ls)). rewrite !append_assoc. cbn [append].
    rewrite (lines_aux_body _ Hb). cbn [append]. rewrite IH. reflexivity.
Qed.

Definition keep (l : string) : bool := negb (is_end_line l).

(* what the constructor makes of one file, once decoded *)
Theorem assemble_text ls last : Forall (fun be => line_ok (fst be)) ls -> line_ok last ->
  String.concat "" (filter keep (lines_of (univ_nl (text_of_lines ls last)))) ++ String LF ""
  = cat (filter keep (lf_lines ls ++ last_line last)) ++ String LF "".
Proof.
  intros H [Hl1 Hl2]. rewrite (univ_text _ _ H Hl2). rewrite (lines_of_text _ _ H Hl1). rewrite concat_cat. reflexivity.
Qed.

Lemma strip_bom_bom t : strip_bom (BOM ++ t) = t.
Proof. reflexivity. Qed.
