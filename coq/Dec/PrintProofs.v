(* PrintProofs.v — print_decay_modes: every line once, ordered (stable), scaled (property C16). *)
From Coq Require Import String Ascii List Bool ZArith QArith Arith Lia Permutation Sorted Field.
From DL Require Import Lib.Val Lib.PyDict Decay.ChainDict Dec.Tables Dec.Print.
Import ListNotations.
Close Scope Q_scope.
Open Scope string_scope.
Open Scope list_scope.

(* ------------------------------------------------------------------ generic stable insertion sort *)
Section Sort.
Variable le : pline -> pline -> bool.
Hypothesis le_total : forall x y, le x y = true \/ le y x = true.
Hypothesis le_trans : forall x y z, le x y = true -> le y z = true -> le x z = true.

Lemma ins_perm x l : Permutation (ins le x l) (x :: l).
Proof.
  induction l as [|y r IH]; simpl; [reflexivity|].
  destruct (le x y); [reflexivity|]. rewrite IH. apply perm_swap.
Qed.

Lemma sort_lines_perm l : Permutation (sort_lines le l) l.
Proof. induction l; simpl; [reflexivity|]. rewrite ins_perm. constructor. assumption. Qed.

Definition ordered (l : list pline) : Prop := StronglySorted (fun a b => le a b = true) l.

Lemma ins_ordered x l : ordered l -> ordered (ins le x l).
Proof.
  unfold ordered. induction l as [|y r IH]; simpl; intros H; [constructor; constructor|].
  inversion H as [|? ? Hs Hall]; subst. destruct (le x y) eqn:E.
  - constructor; [assumption|]. constructor; [assumption|].
    rewrite Forall_forall in *. intros z Hz. eapply le_trans; eauto.
  - constructor; [auto|].
    assert (Hyx : le y x = true) by (destruct (le_total x y); congruence).
    rewrite Forall_forall in *. intros z Hz.
    apply (Permutation_in _ (ins_perm x r)) in Hz. destruct Hz as [<-|Hz]; auto.
Qed.

Lemma sort_lines_ordered l : ordered (sort_lines le l).
Proof. induction l; simpl; [constructor | apply ins_ordered; assumption]. Qed.

(* stability: restricted to any class of lines that may precede each other both ways
   (equal keys), the sort keeps the original (file) order *)
Lemma ins_filter (f : pline -> bool) x l :
  (forall y, f x = true -> f y = true -> le x y = true) ->
  filter f (ins le x l) = if f x then x :: filter f l else filter f l.
Proof.
  intros Hf. induction l as [|y r IH]; simpl; [reflexivity|].
  destruct (le x y) eqn:E; simpl.
  - reflexivity.
  - rewrite IH. destruct (f x) eqn:Fx; [|reflexivity].
    destruct (f y) eqn:Fy; [|reflexivity]. rewrite (Hf y eq_refl Fy) in E. discriminate.
Qed.

Lemma sort_lines_stable (f : pline -> bool) l :
  (forall x y, f x = true -> f y = true -> le x y = true) ->
  filter f (sort_lines le l) = filter f l.
Proof.
  intros Hf. induction l as [|x l IH]; simpl; [reflexivity|].
  rewrite ins_filter by (intros y; apply Hf). rewrite IH. reflexivity.
Qed.

Lemma ordered_hd d l x : ordered l -> In x l -> le (hd d l) x = true \/ hd d l = x.
Proof.
  intros H Hin. destruct l as [|a l]; [contradiction|]. simpl. inversion H; subst.
  destruct Hin as [->|Hin]; [right; reflexivity|]. left. rewrite Forall_forall in *. auto.
Qed.

Lemma ordered_last d l x : ordered l -> In x l -> le x (last l d) = true \/ last l d = x.
Proof.
  intros H. induction H as [|a l Hs IH Hall]; intros Hin; [contradiction|].
  destruct l as [|b l]; simpl.
  - destruct Hin as [->|[]]. right. reflexivity.
  - destruct Hin as [->|Hin].
    + left. rewrite Forall_forall in Hall. apply Hall.
      clear. revert b. induction l as [|c l IHl]; intros b; simpl; [left; reflexivity|]. right. apply IHl.
    + apply IH. assumption.
Qed.
End Sort.

(* ------------------------------------------------------------------ the two orders on Q *)
Lemma Qle_bool_total a b : Qle_bool a b = true \/ Qle_bool b a = true.
Proof.
  destruct (Qlt_le_dec b a) as [H|H].
  - right. apply Qle_bool_iff. apply Qlt_le_weak. assumption.
  - left. apply Qle_bool_iff. assumption.
Qed.
Lemma Qle_bool_trans a b c : Qle_bool a b = true -> Qle_bool b c = true -> Qle_bool a c = true.
Proof. rewrite !Qle_bool_iff. apply Qle_trans. Qed.

Lemma le_desc_total x y : le_desc x y = true \/ le_desc y x = true.
Proof. unfold le_desc. apply Qle_bool_total. Qed.
Lemma le_desc_trans x y z : le_desc x y = true -> le_desc y z = true -> le_desc x z = true.
Proof. unfold le_desc. intros A B. eapply Qle_bool_trans; eassumption. Qed.
Lemma le_asc_total x y : le_asc x y = true \/ le_asc y x = true.
Proof. unfold le_asc. apply Qle_bool_total. Qed.
Lemma le_asc_trans x y z : le_asc x y = true -> le_asc y z = true -> le_asc x z = true.
Proof. unfold le_asc. intros A B. eapply Qle_bool_trans; eassumption. Qed.

Definition dir_le (asc : bool) := if asc then le_asc else le_desc.
Lemma dir_total asc x y : dir_le asc x y = true \/ dir_le asc y x = true.
Proof. destruct asc; [apply le_asc_total | apply le_desc_total]. Qed.
Lemma dir_trans asc x y z : dir_le asc x y = true -> dir_le asc y z = true -> dir_le asc x z = true.
Proof. destruct asc; [apply le_asc_trans | apply le_desc_trans]. Qed.

(* ------------------------------------------------------------------ what a successful print shows *)
Lemma print_rows_ok o lines rows : print_rows o (Some lines) = POk rows ->
  let sorted := sort_lines (dir_le (o_ascending o)) lines in
  (sorted = [] /\ rows = []) \/
  (exists n, ~ (n == 0)%Q /\ rows = mk_rows o (fold_right (fun x acc => Nat.max (String.length (join " " (p_fs x))) acc) 0 lines + 2) n sorted /\
     n = (if o_normalize o then qsum sorted
          else match o_scale o with
               | Some s => (p_bf (if o_ascending o then last sorted dummy else hd dummy sorted) / s)%Q
               | None => 1%Q
               end)).
Proof.
  unfold print_rows, dir_le. intros H.
  destruct (match o_scale o with Some s => if o_normalize o then true else negb (scale_ok s) | None => false end); [discriminate|].
  destruct (sort_lines (if o_ascending o then le_asc else le_desc) lines) as [|a l] eqn:E.
  - left. destruct (o_scale o); inversion H. auto.
  - right. match type of H with (if Qeq_bool ?n 0 then _ else _) = _ => destruct (Qeq_bool n 0) eqn:En; [discriminate|]; exists n end.
    split; [intros Hn; apply Qeq_bool_iff in Hn; congruence|]. inversion H. split; reflexivity.
Qed.

Lemma mk_rows_src o w n l : map r_src (mk_rows o w n l) = l.
Proof. unfold mk_rows. rewrite map_map. simpl. apply map_id. Qed.

Theorem rows_are_the_lines o lines rows : print_rows o (Some lines) = POk rows ->
  map r_src rows = sort_lines (dir_le (o_ascending o)) lines /\
  Permutation (map r_src rows) lines /\
  ordered (dir_le (o_ascending o)) (map r_src rows) /\
  (forall k, filter (fun x => Qeq_bool (p_bf x) k) (map r_src rows) = filter (fun x => Qeq_bool (p_bf x) k) lines).
Proof.
  intros H. destruct (print_rows_ok _ _ _ H) as [[E ->]|[n [_ [-> _]]]].
  - simpl. rewrite E.
    assert (lines = []) by (apply Permutation_nil; rewrite <- E; apply sort_lines_perm). subst.
    repeat split; try constructor.
  - rewrite mk_rows_src. repeat split.
    + apply sort_lines_perm.
    + apply sort_lines_ordered; [apply dir_total | apply dir_trans].
    + intros k. apply sort_lines_stable. intros x y Hx Hy.
      apply Qeq_bool_iff in Hx, Hy. unfold dir_le, le_asc, le_desc.
      destruct (o_ascending o); apply Qle_bool_iff; rewrite Hx, Hy; apply Qle_refl.
Qed.

(* one common factor *)
Theorem rows_common_factor o lines rows : print_rows o (Some lines) = POk rows ->
  exists n, (rows = [] \/ ~ (n == 0)%Q) /\ forall r, In r rows -> r_shown r = (p_bf (r_src r) / n)%Q.
Proof.
  intros H. destruct (print_rows_ok _ _ _ H) as [[E ->]|[n [Hn [-> _]]]].
  - exists 1%Q. split; [left; reflexivity | intros r []].
  - exists n. split; [right; assumption|]. intros r Hr. unfold mk_rows in Hr. apply in_map_iff in Hr.
    destruct Hr as [x [<- _]]. reflexivity.
Qed.

Definition shown_sum (rows : list prow) : Q := fold_right (fun r acc => (r_shown r + acc)%Q) 0%Q rows.

Lemma shown_sum_mk o w n l : ~ (n == 0)%Q -> (shown_sum (mk_rows o w n l) == qsum l / n)%Q.
Proof.
  intros Hn. induction l as [|x l IH]; simpl.
  - field. assumption.
  - rewrite IH. field. assumption.
Qed.

Theorem plain_unchanged o lines rows : o_normalize o = false -> o_scale o = None ->
  print_rows o (Some lines) = POk rows -> forall r, In r rows -> (r_shown r == p_bf (r_src r))%Q.
Proof.
  intros Hn Hs H r Hr. destruct (print_rows_ok _ _ _ H) as [[E ->]|[n [Hn0 [-> En]]]]; [destruct Hr|].
  rewrite Hn, Hs in En. subst n. unfold mk_rows in Hr. apply in_map_iff in Hr. destruct Hr as [x [<- _]].
  simpl. field.
Qed.

Theorem normalized_sum_is_one o lines rows : o_normalize o = true -> rows <> [] ->
  print_rows o (Some lines) = POk rows -> (shown_sum rows == 1)%Q.
Proof.
  intros Hn Hne H. destruct (print_rows_ok _ _ _ H) as [[E ->]|[n [Hn0 [-> En]]]]; [congruence|].
  rewrite Hn in En. rewrite shown_sum_mk by assumption. subst n. field. assumption.
Qed.

(* scale: the row of the largest branching fraction shows exactly the requested scale, all rows
   share the factor scale / max *)
Theorem scaled_to_largest o lines rows s : o_normalize o = false -> o_scale o = Some s -> rows <> [] ->
  print_rows o (Some lines) = POk rows ->
  exists big, In big lines /\ (forall x, In x lines -> (p_bf x <= p_bf big)%Q) /\
    ~ (p_bf big == 0)%Q /\ ~ (s == 0)%Q /\
    forall r, In r rows -> (r_shown r == p_bf (r_src r) * (s / p_bf big))%Q.
Proof.
  intros Hn Hs Hne H. destruct (print_rows_ok _ _ _ H) as [[E ->]|[n [Hn0 [-> En]]]]; [congruence|].
  rewrite Hn, Hs in En.
  set (sorted := sort_lines (dir_le (o_ascending o)) lines) in *.
  set (big := if o_ascending o then last sorted dummy else hd dummy sorted) in *.
  assert (Hsne : sorted <> []) by (intros E; apply Hne; rewrite E; reflexivity).
  assert (Hord : ordered (dir_le (o_ascending o)) sorted) by (apply sort_lines_ordered; [apply dir_total | apply dir_trans]).
  assert (Hperm : Permutation sorted lines) by apply sort_lines_perm.
  assert (Hbig_in : In big sorted).
  { unfold big. destruct (o_ascending o).
    - destruct sorted as [|a l]; [congruence|]. clear. revert a. induction l as [|b l IH]; intros a; [left; reflexivity|].
      right. apply IH.
    - destruct sorted; [congruence | left; reflexivity]. }
  assert (Hs0 : ~ (s == 0)%Q).
  { unfold print_rows in H. rewrite Hs, Hn in H. destruct (negb (scale_ok s)) eqn:Ek; [discriminate|].
    apply negb_false_iff in Ek. unfold scale_ok in Ek. apply andb_true_iff in Ek. destruct Ek as [A _].
    apply negb_true_iff in A. intros E0. rewrite E0 in A. discriminate. }
  assert (Hb0 : ~ (p_bf big == 0)%Q).
  { intros E0. apply Hn0. subst n. rewrite E0. field. assumption. }
  exists big. split; [eapply Permutation_in; eassumption|]. split; [|split; [assumption|split; [assumption|]]].
  - intros x Hx. apply (Permutation_in _ (Permutation_sym Hperm)) in Hx. unfold big.
    destruct (o_ascending o) eqn:Ea.
    + destruct (ordered_last _ dummy sorted x Hord Hx) as [L|L].
      * unfold dir_le, le_asc in L. apply Qle_bool_iff in L. assumption.
      * rewrite L. apply Qle_refl.
    + destruct (ordered_hd _ dummy sorted x Hord Hx) as [L|L].
      * unfold dir_le, le_desc in L. apply Qle_bool_iff in L. assumption.
      * rewrite L. apply Qle_refl.
  - intros r Hr. unfold mk_rows in Hr. apply in_map_iff in Hr. destruct Hr as [x [<- _]]. simpl.
    subst n. field. split; assumption.
Qed.

(* refusals *)
Theorem refused o t s : o_scale o = Some s -> (o_normalize o = true \/ scale_ok s = false) ->
  print_rows o t = PErr "RuntimeError".
Proof.
  intros Hs [Hn|Hk]; unfold print_rows; rewrite Hs.
  - rewrite Hn. reflexivity.
  - rewrite Hk. destruct (o_normalize o); reflexivity.
Qed.

Lemma scale_ok_iff s : scale_ok s = true <-> (0 < s /\ s <= 1)%Q.
Proof.
  unfold scale_ok. rewrite andb_true_iff, negb_true_iff, Qle_bool_iff. split.
  - intros [A B]. split; [|assumption]. apply Qnot_le_lt. intros C. apply Qle_bool_iff in C. congruence.
  - intros [A B]. split; [|assumption]. destruct (Qle_bool s 0) eqn:E; [|reflexivity].
    apply Qle_bool_iff in E. exfalso. eapply Qlt_not_le; eassumption.
Qed.
