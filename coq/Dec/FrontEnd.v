(* FrontEnd.v — from the files given to DecFileParser to the statement list: assemble ; scan ; parse_items,
   and the encoding of statement lists used by the correspondence (no proofs here). *)
From Coq Require Import String Ascii List Bool Arith.
From DL Require Import Lib.Val Dec.ModelName Dec.Num Dec.Syntax Dec.Layout Dec.ItemParser.
Import ListNotations.
Open Scope string_scope.

Record lexcfg := { lc_label : string; lc_ws : string; lc_kind : bkind; lc_alts : list string; lc_sig : bool }.

Definition scan_text (c : lexcfg) (s : string) : list item := scan (lc_label c) (lc_ws c) s MNone.
Definition parse_text (c : lexcfg) (s : string) : option (list stmt) := parse_items (lc_kind c) (lc_alts c) (scan_text c s).

(* the constructor as the code has it: lc_sig = the file is opened with utf_8_sig (a leading BOM is dropped) *)
Definition assemble_file_cfg (c : lexcfg) (s : string) : string :=
  String.concat "" (filter (fun l => negb (is_end_line l)) (lines_of (univ_nl (if lc_sig c then strip_bom s else s)))) ++ String LF "".
Definition assemble_cfg (c : lexcfg) (files : list string) : string := String.concat "" (map (assemble_file_cfg c) files).
Definition parse_files (c : lexcfg) (files : list string) : option (list stmt) := parse_text c (assemble_cfg c files).

(* ------------------------------------------------------------------ encoding *)
Definition enc_param (p : param) : val :=
  match p with PLit l => VList [VStr "num"; VStr l] | PLabel l => VList [VStr "word"; VStr l] end.
Definition enc_model (m : dmodel) : val :=
  match m with
  | MLabel l => VList [VStr "L"; VStr l]
  | MName n o => VList [VStr "N"; VStr n; vopt (fun ps => VList (map enc_param ps)) o]
  end.
Definition enc_line (l : dline) : val :=
  VList [VStr (d_bf l); vstrs (d_fs l); VBool (d_photos l); enc_model (d_model l)].
Definition enc_stmt (s : stmt) : val :=
  match s with
  | SDecay m ls => VList [VStr "Decay"; VStr m; VList (map enc_line ls)]
  | SDefine n l => vstrs ["Define"; n; l]
  | SAlias a b => vstrs ["Alias"; a; b]
  | SChargeConj a b => vstrs ["ChargeConj"; a; b]
  | SCDecay m => vstrs ["CDecay"; m]
  | SCopyDecay a b => vstrs ["CopyDecay"; a; b]
  | SModelAlias n m => VList [VStr "ModelAlias"; VStr n; enc_model m]
  | SParticle n m w => VList [VStr "Particle"; VStr n; VStr m; vopt VStr w]
  | SPythia k a b c => vstrs ["Pythia"; k; a; b; c]
  | SJetSet a b => vstrs ["JetSet"; a; b]
  | SLS k p => vstrs ["LS"; k; p]
  | SBW p l => vstrs ["BW"; p; l]
  | SChangeMass k p l => vstrs ["ChangeMass"; k; p; l]
  | SIncFactor k p y => vstrs ["IncFactor"; k; p; y]
  | SLSPW a b c d => vstrs ["LSPW"; a; b; c; d]
  | SPhotos b => VList [VStr "Photos"; VBool b]
  end.
Definition enc_result (o : option (list stmt)) : val :=
  match o with Some l => VList (map enc_stmt l) | None => VErr "rejected" end.
