(* ParserForm.v — a single-line chain produced by the parser (Dec/Tables.build, property C09) converts to the class form
   (ChainClass.chain_from_dict = DecayChain.from_dict) and back (chain_to_dict = DecayChain.to_dict) to the same dictionary
   up to the order of daughters (property C11, parser clause). *)
From Coq Require Import String Ascii List Bool ZArith QArith Arith Lia Permutation.
From DL Require Import Lib.Val Lib.PyDict Lib.Sort Decay.Conj Decay.Flatten Decay.ChainDict Dec.Tables Dec.ChainsProofs
                       Decay.ChainClass Decay.ChainClassProofs Decay.ChainRoundTrip.
Import ListNotations.
Close Scope Q_scope.
Open Scope string_scope.
Open Scope list_scope.

(* every particle of the chain has exactly one decay line *)
Fixpoint one_mode (c : cdict) : Prop :=
  match c with
  | CD _ [CM _ fs _] =>
      (fix go (l : list fsp) : Prop :=
         match l with [] => True | FName _ :: r => go r | FSub c' :: r => one_mode c' /\ go r end) fs
  | _ => False
  end.
Definition one_mode_fs : list fsp -> Prop :=
  fix go (l : list fsp) : Prop := match l with [] => True | FName _ :: r => go r | FSub c' :: r => one_mode c' /\ go r end.

Lemma one_mode_unfold m bf fs meta : one_mode (CD m [CM bf fs meta]) = one_mode_fs fs.
Proof. reflexivity. Qed.

Definition the_mode (c : cdict) : cmode := match c with CD _ (md :: _) => md | CD _ [] => CM 0%Q [] [] end.

Section PF.
Variable T : list table.
Variable S : list string.

(* everything registered is the mode of the (unique) single-line unfolding of that particle, which is not stable *)
(* the decaying names below a list of daughters are registered *)
Definition subs_in (fs : list fsp) (acc : pdict mode) : Prop :=
  forall c', In (FSub c') fs -> pd_mem (cd_mother c') acc = true.

Definition PInv (acc : pdict mode) : Prop :=
  forall p md, pd_get p acc = Some md ->
    exists c, unfolds T S p c /\ one_mode c /\ ~ In p S /\ md = mode_of_cm (the_mode c) /\ subs_in (cm_fs (the_mode c)) acc.
Definition pext (acc acc' : pdict mode) : Prop := forall p, pd_mem p acc = true -> pd_mem p acc' = true.

Lemma unfolds_mother p c : unfolds T S p c -> cd_mother c = p.
Proof. inversion 1; reflexivity. Qed.

Lemma csize_sub m bf fs meta c' : In (FSub c') fs -> csize c' < csize (CD m [CM bf fs meta]).
Proof.
  intros Hin. simpl. induction fs as [|f r IH]; [destruct Hin|]. destruct Hin as [->|Hin]; simpl.
  - lia.
  - specialize (IH Hin). destruct f; simpl in *; lia.
Qed.

Lemma one_mode_fs_in fs c' : one_mode_fs fs -> In (FSub c') fs -> one_mode c'.
Proof.
  induction fs as [|f r IH]; intros H Hin; [destruct Hin|]. destruct Hin as [->|Hin].
  - simpl in H. apply H.
  - apply IH; [|exact Hin]. destruct f; simpl in H; [exact H | apply H].
Qed.

Lemma unfold_sub l fs c' : Forall2 (unfold_d T S) l fs -> In (FSub c') fs -> unfolds T S (cd_mother c') c' /\ ~ In (cd_mother c') S.
Proof.
  induction 1 as [|d f ds fs' Hd Hr IH]; intros Hin; [destruct Hin|]. destruct Hin as [->|Hin]; [|apply IH; exact Hin].
  inversion Hd; subst. rewrite (unfolds_mother _ _ H2). split; assumption.
Qed.

(* _build_decay_modes on a parser-produced single-line chain *)
Lemma bm : forall n c, csize c < n -> unfolds T S (cd_mother c) c -> one_mode c -> ~ In (cd_mother c) S ->
  forall acc, PInv acc ->
  exists acc', build_modes acc c = Some acc' /\ PInv acc' /\ pext acc acc' /\ pd_mem (cd_mother c) acc' = true.
Proof.
  induction n as [|n IH]; intros c Hn Hu Ho HS acc HI; [lia|].
  destruct c as [m [|[bf fs meta] [|? ?]]]; try (simpl in Ho; contradiction).
  rewrite one_mode_unfold in Ho. cbn [cd_mother] in *.
  inversion Hu as [m1 lines modes Hf Hl]; subst. inversion Hl as [|l md ls mds Hmd Hrest]; subst. inversion Hrest; subst.
  inversion Hmd as [l1 fs1 Hfs]; subst. clear Hl Hrest.
  rewrite build_unfold.
  (* the sub-decays *)
  assert (Hgo : forall fs0, (forall c', In (FSub c') fs0 -> In (FSub c') fs) -> forall acc0, PInv acc0 ->
                 exists acc1, go_modes acc0 fs0 = Some acc1 /\ PInv acc1 /\ pext acc0 acc1 /\ subs_in fs0 acc1).
  { induction fs0 as [|f r IHr]; intros Hsub acc0 HI0.
    - exists acc0. split; [reflexivity|]. split; [exact HI0|]. split; [intros p Hp; exact Hp | intros c' []].
    - assert (Hr : forall c', In (FSub c') r -> In (FSub c') fs) by (intros c' Hc; apply Hsub; right; exact Hc).
      destruct f as [nm|c1].
      + destruct (IHr Hr acc0 HI0) as (acc1 & G & I1 & X1 & S1). exists acc1. split; [exact G|]. split; [exact I1|]. split; [exact X1|].
        intros c' [Hc|Hc]; [discriminate | apply S1; exact Hc].
      + assert (Hin1 : In (FSub c1) fs) by (apply Hsub; left; reflexivity).
        destruct (unfold_sub _ _ _ Hfs Hin1) as [Hu1 HS1].
        destruct (IH c1) with (acc := acc0) as (acca & Ba & Ia & Xa & Ma); auto.
        { pose proof (csize_sub m (l_bf l) fs (line_meta false l) c1 Hin1). lia. }
        { eapply one_mode_fs_in; eauto. }
        destruct (IHr Hr acca Ia) as (acc1 & G & I1 & X1 & S1).
        exists acc1. cbn [go_modes]. fold go_modes. rewrite Ba. split; [exact G|]. split; [exact I1|]. split; [intros p Hp; apply X1, Xa, Hp|].
        intros c' [Hc|Hc]; [inversion Hc; subst; apply X1, Ma | apply S1; exact Hc]. }
  destruct (Hgo fs (fun c' H => H) acc HI) as (acc1 & G & I1 & X1 & S1). rewrite G. cbn zeta.
  set (new := mode_of_cm (CM (l_bf l) fs (line_meta false l))).
  assert (I2 : PInv (pd_set m new acc1)).
  { intros p md Hp. destruct (String.eqb_spec m p) as [<-|Hne].
    - rewrite pd_get_set_same in Hp. inversion Hp; subst. exists (CD m [CM (l_bf l) fs (line_meta false l)]).
      split; [exact Hu|]. split; [rewrite one_mode_unfold; exact Ho|]. split; [exact HS|]. split; [reflexivity|].
      cbn [the_mode cm_fs]. intros c' Hc. apply pd_mem_set. right. apply S1, Hc.
    - rewrite pd_get_set_other in Hp by exact Hne. destruct (I1 _ _ Hp) as (c0 & A1 & A2 & A3 & A4 & A5).
      exists c0. split; [exact A1|]. split; [exact A2|]. split; [exact A3|]. split; [exact A4|].
      intros c' Hc. apply pd_mem_set. right. apply A5, Hc. }
  assert (X2 : pext acc (pd_set m new acc1)).
  { intros p Hp. apply pd_mem_set. right. apply X1, Hp. }
  assert (M2 : pd_mem m (pd_set m new acc1) = true) by (apply pd_mem_set; left; reflexivity).
  destruct (pd_get m acc1) as [old|] eqn:Eo.
  - destruct (I1 _ _ Eo) as (c0 & Hu0 & Ho0 & _ & Eold & _).
    assert (Ec : c0 = CD m [CM (l_bf l) fs (line_meta false l)]).
    { symmetry. eapply (unfolds_det T S (Datatypes.S (csize (CD m [CM (l_bf l) fs (line_meta false l)])))); [lia | exact Hu | exact Hu0]. }
    subst c0. cbn [the_mode] in Eold. subst old. fold new. rewrite vmode_eq_refl. eexists. split; [reflexivity|]. split; [exact I2|]. split; [exact X2 | exact M2].
  - eexists. split; [reflexivity|]. split; [exact I2|]. split; [exact X2 | exact M2].
Qed.

(* ------------------------------------------------------------------ to_dict of the class form *)
(* the same dictionary up to the order of daughters, at every level *)
Inductive sim : cdict -> cdict -> Prop :=
| sim_cd m bf fs fsp fs' meta : Permutation fs fsp -> Forall2 simf fsp fs' -> sim (CD m [CM bf fs meta]) (CD m [CM bf fs' meta])
with simf : fsp -> fsp -> Prop :=
| simf_name n : simf (FName n) (FName n)
| simf_sub c c' : sim c c' -> simf (FSub c) (FSub c').

Lemma m_fs_mk bf fs info : m_fs (mk_mode bf fs info) = fs. Proof. reflexivity. Qed.
Lemma m_bf_mk bf fs info : m_bf (mk_mode bf fs info) = bf. Proof. reflexivity. Qed.
Lemma m_meta_mk bf fs l : m_meta (mk_mode bf fs (line_meta false l)) = line_meta false l. Proof. reflexivity. Qed.
Lemma meta_out_line l : meta_out (line_meta false l) = line_meta false l.
Proof. unfold meta_out, line_meta. cbn. destruct (l_params l); reflexivity. Qed.

Lemma unfold_name l fs d : Forall2 (unfold_d T S) l fs -> In (FName d) fs -> In d S \/ find_table d T = None.
Proof.
  induction 1 as [|x f ds fs' Hd Hr IH]; intros Hin; [destruct Hin|]. destruct Hin as [->|Hin]; [|apply IH; exact Hin].
  inversion Hd; subst; [left | right]; assumption.
Qed.

Variable decays : pdict mode.
Hypothesis HI : PInv decays.

Lemma registered_not_leaf l fs d : Forall2 (unfold_d T S) l fs -> In (FName d) fs -> pd_mem d decays = false.
Proof.
  intros Hfs Hin. destruct (pd_mem d decays) eqn:E; [|reflexivity]. exfalso.
  apply pd_mem_get in E. destruct E as [md E]. destruct (HI _ _ E) as (c & Hu & _ & HnS & _).
  destruct (unfold_name _ _ _ Hfs Hin) as [H|H]; [exact (HnS H)|]. inversion Hu; congruence.
Qed.

Lemma td : forall n c, csize c < n -> unfolds T S (cd_mother c) c -> one_mode c -> pd_mem (cd_mother c) decays = true ->
  exists d', chain_to_dict n decays (cd_mother c) = Some d' /\ sim c d'.
Proof.
  induction n as [|n IH]; intros c Hn Hu Ho Hm; [lia|].
  destruct c as [m [|[bf fs meta] [|? ?]]]; try (simpl in Ho; contradiction).
  rewrite one_mode_unfold in Ho. cbn [cd_mother] in *.
  inversion Hu as [m1 lines modes Hf Hl]; subst. inversion Hl as [|l md ls mds Hmd Hrest]; subst. inversion Hrest; subst.
  inversion Hmd as [l1 fs1 Hfs]; subst. clear Hl Hrest.
  apply pd_mem_get in Hm. destruct Hm as [md Em]. destruct (HI _ _ Em) as (c0 & Hu0 & _ & _ & Emd & Hsub).
  assert (Ec : c0 = CD m [CM (l_bf l) fs (line_meta false l)]).
  { symmetry. eapply (unfolds_det T S (Datatypes.S (csize (CD m [CM (l_bf l) fs (line_meta false l)])))); [lia | exact Hu | exact Hu0]. }
  subst c0. cbn [the_mode cm_fs] in *. subst md.
  cbn [chain_to_dict]. rewrite Em. cbn [mode_of_cm]. rewrite m_fs_mk, m_bf_mk, m_meta_mk, to_list_of_list, meta_out_line.
  destruct (Permutation_map_inv (fun f => match f with FName n0 => n0 | FSub c => cd_mother c end) fs (sort_perm (names_of fs)))
    as (fsp & Enames & Hperm).
  fold (names_of fsp) in Enames. rewrite Enames.
  assert (Hall : forall f, In f fsp -> In f fs) by (intros f Hf0; eapply Permutation_in; [apply Permutation_sym; exact Hperm | exact Hf0]).
  assert (Hmap : exists fs', mapM (fun d => if pd_mem d decays
                               then match chain_to_dict n decays d with Some c => Some (FSub c) | None => None end
                               else Some (FName d)) (names_of fsp) = Some fs' /\ Forall2 simf fsp fs').
  { clear Enames Hperm. induction fsp as [|f r IHr].
    - exists []. split; [reflexivity | constructor].
    - destruct IHr as (r' & Er & Fr); [intros f0 H0; apply Hall; right; exact H0|].
      assert (Hin : In f fs) by (apply Hall; left; reflexivity).
      destruct f as [d|c1]; cbn [names_of map mapM].
      + rewrite (registered_not_leaf _ _ _ Hfs Hin). fold (names_of r). rewrite Er. eexists. split; [reflexivity|]. constructor; [constructor | exact Fr].
      + rewrite (Hsub _ Hin). destruct (unfold_sub _ _ _ Hfs Hin) as [Hu1 _].
        destruct (IH c1) as (d1 & E1 & S1); auto.
        { pose proof (csize_sub m (l_bf l) fs (line_meta false l) c1 Hin). lia. }
        { eapply one_mode_fs_in; eauto. }
        rewrite E1. fold (names_of r). rewrite Er. eexists. split; [reflexivity|]. constructor; [constructor; exact S1 | exact Fr]. }
  destruct Hmap as (fs' & Emap & Fsim). rewrite Emap. eexists. split; [reflexivity|]. econstructor; eassumption.
Qed.
End PF.

(* DecayChain.from_dict of a parser-produced single-line chain, then to_dict: the same dictionary up to the order of
   daughters.  (m in S is excluded: build_decay_chains then lists m's own line while every daughter called m stays a
   bare name, and to_dict would expand those daughters again.) *)
Theorem parser_chain_roundtrip T S m c : unfolds T S m c -> one_mode c -> ~ In m S ->
  exists decays d', chain_from_dict c = COk {| c_mother := m; c_decays := decays |}
                    /\ chain_to_dict (Datatypes.S (csize c)) decays m = Some d' /\ sim c d'.
Proof.
  intros Hu Ho HS. pose proof (unfolds_mother _ _ _ _ Hu) as Em. subst m.
  assert (I0 : PInv T S []) by (intros p md E; discriminate).
  destruct (bm T S (Datatypes.S (csize c)) c (Nat.lt_succ_diag_r _) Hu Ho HS [] I0) as (decays & B & HI & _ & Hm).
  destruct (td T S decays HI (Datatypes.S (csize c)) c (Nat.lt_succ_diag_r _) Hu Ho Hm) as (d' & E & Hs).
  exists decays, d'. unfold chain_from_dict. rewrite B, Hm. split; [reflexivity|]. split; assumption.
Qed.

(* ------------------------------------------------------------------ consequences *)
From DL Require Import Fmt.DescFormat Decay.DescriptorProofs.

(* more fuel changes nothing once to_dict has returned *)
Lemma mapM_mono {A B} (f g : A -> option B) l ys :
  (forall x y, In x l -> f x = Some y -> g x = Some y) -> mapM f l = Some ys -> mapM g l = Some ys.
Proof.
  revert ys. induction l as [|x r IH]; intros ys H E; cbn [mapM] in *; [exact E|].
  destruct (f x) as [y|] eqn:Ef; [|discriminate]. rewrite (H x y (or_introl eq_refl) Ef).
  destruct (mapM f r) as [ys'|] eqn:Er; [|discriminate].
  rewrite (IH ys'); [exact E | intros x0 y0 Hx; apply H; right; exact Hx | reflexivity].
Qed.

Lemma chain_to_dict_mono decays : forall n m d, chain_to_dict n decays m = Some d ->
  forall n', n <= n' -> chain_to_dict n' decays m = Some d.
Proof.
  induction n as [|n IH]; intros m d H n' Hle; [discriminate|].
  destruct n' as [|n']; [lia|]. cbn [chain_to_dict] in *.
  destruct (pd_get m decays) as [md|]; [|discriminate].
  match type of H with match ?X with _ => _ end = _ => destruct X as [fs|] eqn:E; [|discriminate] end.
  erewrite mapM_mono; [exact H | | exact E].
  intros x y _ Hx. cbn beta in *. destruct (pd_mem x decays); [|exact Hx].
  destruct (chain_to_dict n decays x) as [c|] eqn:Ec; [|discriminate]. rewrite (IH _ _ Ec n') by lia. exact Hx.
Qed.

Lemma Forall2_impl_in {A B} (R R' : A -> B -> Prop) l l' :
  (forall a b, In a l -> R a b -> R' a b) -> Forall2 R l l' -> Forall2 R' l l'.
Proof.
  intros H F. induction F as [|a b l l' Hab F IH]; constructor.
  - apply H; [left; reflexivity | exact Hab].
  - apply IH. intros a0 b0 Hin. apply H. right. exact Hin.
Qed.

(* sim refines the order-insensitive equivalence of the descriptor theorems (C13) *)
Lemma sim_ceq : forall n c c', csize c < n -> sim c c' -> ceq c c'.
Proof.
  induction n as [|n IH]; intros c c' Hn Hs; [lia|].
  inversion Hs as [m bf fs fsp fs' meta Hperm Hf]; subst. econstructor; [exact Hperm|].
  eapply Forall2_impl_in; [|exact Hf]. intros a b Hin Hab.
  assert (Hin' : In a fs) by (eapply Permutation_in; [apply Permutation_sym; exact Hperm | exact Hin]).
  inversion Hab as [nm|c1 c1' Hs1]; subst; constructor.
  apply IH; [|exact Hs1]. pose proof (csize_sub m bf fs meta c1 Hin'). lia.
Qed.

(* the one-line descriptor of the class form of a parser-built single-line chain is the descriptor of the parser's own
   dictionary: DecayChain.from_dict(build_decay_chains(m)).to_string() is the one string expand_decay_modes(m) lists *)
Theorem parser_chain_to_string cfg T S m c : unfolds T S m c -> one_mode c -> ~ In m S -> csize c < 100 ->
  exists ch, chain_from_dict c = COk ch /\ chain_to_string cfg ch = VStr (descr cfg true c)
             /\ expand cfg [] true c = [descr cfg true c].
Proof.
  intros Hu Ho HS Hsz. destruct (parser_chain_roundtrip T S m c Hu Ho HS) as (decays & d' & E1 & E2 & Hs).
  eexists. split; [exact E1|].
  assert (E100 : chain_to_dict 100 decays m = Some d') by (apply (chain_to_dict_mono decays _ _ _ E2); lia).
  assert (Hc : ceq c d') by (apply (sim_ceq (Datatypes.S (csize c))); [lia | exact Hs]).
  split.
  - rewrite (to_string_is_descr cfg {| c_mother := m; c_decays := decays |} d' E100). f_equal. symmetry.
    apply (descr_order_canonical cfg (Datatypes.S (csz c))); [lia | exact Hc].
  - apply expand_single. clear - Ho. revert Ho.
    apply (ExpandProofs.cdict_ind' (fun c => one_mode c -> single c) (fun md => one_mode_fs (cm_fs md) -> Forall (fun f => match f with ChainDict.FName _ => True | FSub c' => single c' end) (cm_fs md))
             (fun f => match f with ChainDict.FName _ => True | FSub c' => one_mode c' -> single c' end)).
    + intros m0 ms HF Ho. destruct ms as [|[bf fs meta] [|? ?]]; try (simpl in Ho; contradiction).
      rewrite one_mode_unfold in Ho. inversion HF as [|x l Hx _]; subst. specialize (Hx Ho). cbn [cm_fs] in Hx.
      constructor. eapply Forall_impl; [|exact Hx]. intros [nm|c']; intro Hs; constructor; exact Hs.
    + intros bf fs meta HF Ho. cbn [cm_fs] in *. induction HF as [|f r Hf HF IH]; [constructor|].
      destruct f as [nm|c']; cbn in Ho.
      * constructor; [exact I | apply IH; exact Ho].
      * destruct Ho as [Ho1 Ho2]. constructor; [apply Hf; exact Ho1 | apply IH; exact Ho2].
    + intros; exact I.
    + intros c' IH. exact IH.
Qed.
