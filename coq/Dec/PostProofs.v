(* PostProofs.v — decay tables are what the file states (C01) and Define / ModelAlias mean their
   expansion (C05), at the level of the statement list. *)
From Coq Require Import String Ascii List Bool ZArith QArith Arith Lia.
From DL Require Import Lib.Val Lib.PyDict Lib.Sort Decay.Conj Decay.ChainDict Dec.Num Dec.Tables Dec.Syntax Dec.Post.
Import ListNotations.
Close Scope Q_scope.
Open Scope string_scope.
Open Scope list_scope.

(* ------------------------------------------------------------------ dictionaries: last definition wins *)
Fixpoint assoc_last {V} (k : string) (l : list (string * V)) : option V :=
  match l with
  | [] => None
  | (k', v) :: r => match assoc_last k r with
                    | Some w => Some w
                    | None => if String.eqb k k' then Some v else None
                    end
  end.

Lemma pd_update_get {V} (e : list (string * V)) : forall d k,
  pd_get k (pd_update d e) = match assoc_last k e with Some v => Some v | None => pd_get k d end.
Proof.
  induction e as [|[k' v] e IH]; intros d k; simpl; [reflexivity|].
  unfold pd_update in *. simpl. rewrite IH. destruct (assoc_last k e); [reflexivity|].
  destruct (String.eqb k k') eqn:E.
  - apply String.eqb_eq in E. subst. apply pd_get_set_same.
  - apply pd_get_set_other. intros ->. rewrite String.eqb_refl in E. discriminate.
Qed.

Theorem pd_of_list_last {V} (l : list (string * V)) k : pd_get k (pd_of_list l) = assoc_last k l.
Proof. unfold pd_of_list. rewrite pd_update_get. destruct (assoc_last k l); reflexivity. Qed.

Lemma assoc_last_in {V} k (l : list (string * V)) v : assoc_last k l = Some v -> In (k, v) l.
Proof.
  induction l as [|[k' w] r IH]; simpl; [discriminate|]. destruct (assoc_last k r) eqn:E.
  - intros H. inversion H; subst. right. apply IH. reflexivity.
  - destruct (String.eqb k k') eqn:E2; [|discriminate]. intros H. inversion H; subst.
    apply String.eqb_eq in E2. subst. left. reflexivity.
Qed.

Lemma assoc_last_none {V} k (l : list (string * V)) : assoc_last k l = None <-> ~ In k (map fst l).
Proof.
  induction l as [|[k' w] r IH]; simpl; [tauto|]. destruct (assoc_last k r) eqn:E.
  - split; [discriminate|]. intros H. exfalso. apply H. right.
    apply assoc_last_in in E. change k with (fst (k, v)). apply in_map. assumption.
  - destruct (String.eqb k k') eqn:E2.
    + apply String.eqb_eq in E2. subst. split; [discriminate|]. intros H. exfalso. apply H. left. reflexivity.
    + split; [|reflexivity]. intros _ [H|H]; [subst; rewrite String.eqb_refl in E2; discriminate | apply IH in H; auto].
Qed.

(* ------------------------------------------------------------------ first block per mother, file order *)
Fixpoint assoc_first {V} (k : string) (l : list (string * V)) : option V :=
  match l with
  | [] => None
  | (k', v) :: r => if String.eqb k k' then Some v else assoc_first k r
  end.

Fixpoint firsts (seen : list string) (l : list string) : list string :=
  match l with
  | [] => []
  | x :: r => if smem x seen then firsts seen r else x :: firsts (x :: seen) r
  end.

Lemma dedupe_keys seen l : map fst (dedupe seen l) = firsts seen (map fst l).
Proof.
  revert seen. induction l as [|[m ls] r IH]; intros seen; simpl; [reflexivity|].
  destruct (smem m seen); simpl; rewrite IH; reflexivity.
Qed.

Lemma firsts_not_seen seen l x : In x (firsts seen l) -> smem x seen = false /\ In x l.
Proof.
  revert seen. induction l as [|y r IH]; intros seen; simpl; [intros []|].
  destruct (smem y seen) eqn:E.
  - intros H. apply IH in H. tauto.
  - intros [<-|H]; [auto|]. apply IH in H. destruct H as [A B]. split; [|auto].
    unfold smem in *. simpl in A. apply orb_false_iff in A. tauto.
Qed.

Lemma firsts_nodup seen l : NoDup (firsts seen l).
Proof.
  revert seen. induction l as [|y r IH]; intros seen; simpl; [constructor|].
  destruct (smem y seen) eqn:E; [apply IH|]. constructor; [|apply IH].
  intros H. apply firsts_not_seen in H. destruct H as [A _]. unfold smem in A. simpl in A.
  rewrite String.eqb_refl in A. discriminate.
Qed.

Lemma firsts_complete seen l x : In x l -> smem x seen = false -> In x (firsts seen l).
Proof.
  revert seen. induction l as [|y r IH]; intros seen; simpl; [intros []|].
  intros [->|H] Hs.
  - rewrite Hs. left. reflexivity.
  - destruct (smem y seen) eqn:E; [apply IH; assumption|].
    destruct (String.eqb x y) eqn:Exy; [apply String.eqb_eq in Exy; subst; left; reflexivity|].
    right. apply IH; [assumption|]. unfold smem in *. simpl. rewrite Exy. assumption.
Qed.

Lemma dedupe_find seen l m : smem m seen = false -> assoc_first m (dedupe seen l) = assoc_first m l.
Proof.
  revert seen. induction l as [|[m' ls] r IH]; intros seen Hs; simpl; [reflexivity|].
  destruct (String.eqb m m') eqn:E.
  - apply String.eqb_eq in E. subst m'. rewrite Hs. simpl. rewrite String.eqb_refl. reflexivity.
  - destruct (smem m' seen) eqn:E2.
    + apply IH. assumption.
    + simpl. rewrite E. apply IH. unfold smem in *. simpl. rewrite E. assumption.
Qed.

(* one table per distinct mother, in the order of first occurrence, each being the FIRST block *)
Theorem dedupe_spec l :
  map fst (dedupe [] l) = firsts [] (map fst l) /\ NoDup (map fst (dedupe [] l)) /\
  (forall m, In m (map fst (dedupe [] l)) <-> In m (map fst l)) /\
  (forall m, assoc_first m (dedupe [] l) = assoc_first m l).
Proof.
  split; [apply dedupe_keys|]. split; [rewrite dedupe_keys; apply firsts_nodup|]. split.
  - intros m. rewrite dedupe_keys. split.
    + intros H. apply firsts_not_seen in H. tauto.
    + intros H. apply firsts_complete; [assumption | reflexivity].
  - intros m. apply dedupe_find. reflexivity.
Qed.

(* ------------------------------------------------------------------ every line, field by field *)
Theorem resolve_line_named mal defs d n opts : d_model d = MName n opts ->
  resolve_line mal defs d =
  inl {| l_bf := numq (d_bf d); l_fs := d_fs d; l_photos := d_photos d; l_model := n;
         l_params := option_map (map (resolve_param defs)) opts |}.
Proof. intros H. unfold resolve_line, resolve_model. rewrite H. reflexivity. Qed.

Theorem resolve_param_literal defs lit : resolve_param defs (PLit lit) = PNum (numq lit).
Proof. reflexivity. Qed.

Definition unsigned (s : string) : string :=
  match s with String c r => if is_c c "-" then r else s | EmptyString => s end.

Theorem resolve_param_word defs w : pd_get (unsigned w) defs = None -> resolve_param defs (PLabel w) = PWord w.
Proof.
  unfold resolve_param, unsigned. destruct w as [|c r]; [reflexivity|].
  destruct (is_c c "-"); intros ->; reflexivity.
Qed.

Lemma mapE_ok {A B} (f : A -> B + perr) l : (forall x, In x l -> exists y, f x = inl y) ->
  exists ys, mapE f l = inl ys /\ Forall2 (fun x y => f x = inl y) l ys.
Proof.
  induction l as [|x r IH]; intros H; simpl.
  - exists []. split; [reflexivity | constructor].
  - destruct (H x (or_introl eq_refl)) as [y Hy]. rewrite Hy.
    destruct IH as [ys [E F]]; [intros z Hz; apply H; right; assumption|].
    rewrite E. exists (y :: ys). split; [reflexivity | constructor; assumption].
Qed.

Lemma mapE_inl_Forall2 {A B} (f : A -> B + perr) l ys : mapE f l = inl ys -> Forall2 (fun x y => f x = inl y) l ys.
Proof.
  revert ys. induction l as [|x r IH]; intros ys H; simpl in H.
  - inversion H. constructor.
  - destruct (f x) eqn:Ex; [|discriminate]. destruct (mapE f r) eqn:Er; [|discriminate].
    inversion H; subst. constructor; [assumption | apply IH; reflexivity].
Qed.

Lemma Forall2_impl_ {A B} (P Q : A -> B -> Prop) l l' : (forall a b, P a b -> Q a b) -> Forall2 P l l' -> Forall2 Q l l'.
Proof. intros H. induction 1; constructor; auto. Qed.

(* without CopyDecay and with conjugates switched off, parse() holds exactly the de-duplicated blocks,
   each line resolved on its own *)
Theorem tables_are_the_blocks ccdb sc f T :
  copies_of f = [] -> parse_post ccdb sc false f = inl T ->
  Forall2 (fun blk t => fst t = fst blk /\
                        Forall2 (fun d l => resolve_line (model_aliases_of f) (defs_of f) d = inl l) (snd blk) (snd t))
          (dedupe [] (raw_decays f)) T.
Proof.
  intros Hc H. unfold parse_post in H. rewrite Hc in H.
  destruct (mapE _ (dedupe [] (raw_decays f))) as [T0|] eqn:E; [|discriminate].
  inversion H; subst. unfold add_copies. simpl. rewrite app_nil_r.
  apply mapE_inl_Forall2 in E.
  eapply Forall2_impl_; [|exact E].
  intros blk t Hb. unfold resolve_table in Hb. destruct (mapE _ (snd blk)) as [ls|] eqn:El; [|discriminate].
  inversion Hb; subst. simpl. split; [reflexivity|]. apply mapE_inl_Forall2. assumption.
Qed.

(* ------------------------------------------------------------------ C05: textual expansion *)
Definition deflits_of (f : list stmt) : pdict string :=
  pd_of_list (flat_map (fun s => match s with SDefine n lit => [(n, lit)] | _ => [] end) f).

Definition expand_param (dl : pdict string) (p : param) : param :=
  match p with
  | PLit _ => p
  | PLabel s =>
      match s with
      | String c rest =>
          if is_c c "-" then match pd_get rest dl with Some lit => PLit (neg_lit lit) | None => p end
          else match pd_get s dl with Some lit => PLit lit | None => p end
      | EmptyString => p
      end
  end.

Definition expand_model (mal : pdict dmodel) (dl : pdict string) (m : dmodel) : dmodel :=
  match m with
  | MName n opts => MName n (option_map (map (expand_param dl)) opts)
  | MLabel l => match pd_get l mal with
                | Some (MName n opts) => MName n (option_map (map (expand_param dl)) opts)
                | _ => m
                end
  end.

Definition expand_line mal dl (d : dline) : dline :=
  {| d_bf := d_bf d; d_fs := d_fs d; d_photos := d_photos d; d_model := expand_model mal dl (d_model d) |}.

Definition expand_stmt mal dl (s : stmt) : stmt :=
  match s with SDecay m ls => SDecay m (map (expand_line mal dl) ls) | _ => s end.

(* every use of a Define'd name / ModelAlias name replaced in the text of the Decay blocks *)
Definition expand_src (f : list stmt) : list stmt :=
  map (expand_stmt (model_aliases_of f) (deflits_of f)) f.

Lemma assoc_last_map {V W} (g : V -> W) k (l : list (string * V)) :
  assoc_last k (map (fun kv => (fst kv, g (snd kv))) l) = option_map g (assoc_last k l).
Proof.
  induction l as [|[k' v] r IH]; simpl; [reflexivity|]. rewrite IH.
  destruct (assoc_last k r); simpl; [reflexivity|]. destruct (String.eqb k k'); reflexivity.
Qed.

Lemma defs_of_lits f k : pd_get k (defs_of f) = option_map numq (pd_get k (deflits_of f)).
Proof.
  unfold defs_of, deflits_of. rewrite !pd_of_list_last. rewrite <- assoc_last_map. f_equal.
  induction f as [|s r IH]; simpl; [reflexivity|]. rewrite map_app, IH. f_equal. destruct s; reflexivity.
Qed.

Definition lits_numeric (f : list stmt) : Prop := forall n lit, In (SDefine n lit) f -> is_num lit = true.

Lemma deflits_numeric f k lit : lits_numeric f -> pd_get k (deflits_of f) = Some lit -> is_num lit = true.
Proof.
  intros H E. unfold deflits_of in E. rewrite pd_of_list_last in E. apply assoc_last_in in E.
  apply in_flat_map in E. destruct E as [s [Hs Hin]]. destruct s; simpl in Hin; try contradiction.
  destruct Hin as [Hin|[]]. inversion Hin; subst. eapply H. eassumption.
Qed.

Lemma resolve_expand_param f p : lits_numeric f ->
  resolve_param (defs_of f) (expand_param (deflits_of f) p) = resolve_param (defs_of f) p.
Proof.
  intros Hn. destruct p as [lit|s]; [reflexivity|]. destruct s as [|c rest]; [reflexivity|].
  unfold expand_param. destruct (is_c c "-") eqn:E.
  - destruct (pd_get rest (deflits_of f)) as [lit|] eqn:El.
    + cbn [resolve_param]. rewrite E, defs_of_lits, El. cbn [option_map].
      rewrite numq_neg_lit by (eapply deflits_numeric; eassumption). reflexivity.
    + reflexivity.
  - destruct (pd_get (String c rest) (deflits_of f)) as [lit|] eqn:El.
    + cbn [resolve_param]. rewrite E, defs_of_lits, El. reflexivity.
    + reflexivity.
Qed.

Lemma resolve_expand_opts f opts : lits_numeric f ->
  option_map (map (resolve_param (defs_of f))) (option_map (map (expand_param (deflits_of f))) opts) =
  option_map (map (resolve_param (defs_of f))) opts.
Proof.
  intros Hn. destruct opts as [l|]; [|reflexivity]. simpl. f_equal. rewrite map_map.
  apply map_ext. intros p. apply resolve_expand_param. assumption.
Qed.

Lemma resolve_expand_model f m : lits_numeric f ->
  resolve_model (model_aliases_of f) (defs_of f) (expand_model (model_aliases_of f) (deflits_of f) m) =
  resolve_model (model_aliases_of f) (defs_of f) m.
Proof.
  intros Hn. destruct m as [l|n opts]; simpl.
  - destruct (pd_get l (model_aliases_of f)) as [[l'|n opts]|] eqn:E; simpl; rewrite ?E; try reflexivity.
    rewrite resolve_expand_opts by assumption. reflexivity.
  - rewrite resolve_expand_opts by assumption. reflexivity.
Qed.

Lemma resolve_expand_line f d : lits_numeric f ->
  resolve_line (model_aliases_of f) (defs_of f) (expand_line (model_aliases_of f) (deflits_of f) d) =
  resolve_line (model_aliases_of f) (defs_of f) d.
Proof. intros Hn. unfold resolve_line, expand_line. simpl. rewrite resolve_expand_model by assumption. reflexivity. Qed.

Lemma mapE_ext {A B} (f g : A -> B + perr) l : (forall x, f x = g x) -> mapE f l = mapE g l.
Proof. intros H. induction l as [|x r IH]; simpl; [reflexivity|]. rewrite H, IH. reflexivity. Qed.

Lemma mapE_map {A B C} (g : A -> B) (f : B -> C + perr) l : mapE f (map g l) = mapE (fun x => f (g x)) l.
Proof. induction l as [|x r IH]; simpl; [reflexivity|]. rewrite IH. reflexivity. Qed.

(* the other statements are untouched, so every dictionary of the file is the same *)
Section Untouched.
Variables (mal : pdict dmodel) (dl : pdict string).
Let E := expand_stmt mal dl.

Lemma flat_map_untouched {B} (g : stmt -> list B) f :
  (forall s, g (E s) = g s) -> flat_map g (map E f) = flat_map g f.
Proof. intros H. induction f as [|s r IH]; simpl; [reflexivity|]. rewrite H, IH. reflexivity. Qed.

Lemma model_aliases_untouched f : model_aliases_of (map E f) = model_aliases_of f.
Proof. unfold model_aliases_of. f_equal. apply flat_map_untouched. intros []; reflexivity. Qed.
Lemma defs_untouched f : defs_of (map E f) = defs_of f.
Proof. unfold defs_of. f_equal. apply flat_map_untouched. intros []; reflexivity. Qed.
Lemma copies_untouched f : copies_of (map E f) = copies_of f.
Proof. unfold copies_of. f_equal. apply flat_map_untouched. intros []; reflexivity. Qed.
Lemma ccdefs_untouched f : ccdefs_of (map E f) = ccdefs_of f.
Proof. unfold ccdefs_of. f_equal. apply flat_map_untouched. intros []; reflexivity. Qed.
Lemma cdecays_untouched f : cdecays_of (map E f) = cdecays_of f.
Proof. unfold cdecays_of. f_equal. apply flat_map_untouched. intros []; reflexivity. Qed.

Lemma raw_decays_expand f :
  raw_decays (map E f) = map (fun t => (fst t, map (expand_line mal dl) (snd t))) (raw_decays f).
Proof.
  unfold raw_decays. induction f as [|s r IH]; simpl; [reflexivity|]. rewrite map_app, IH. f_equal.
  destruct s; reflexivity.
Qed.

Lemma dedupe_map seen (l : list (string * list dline)) :
  dedupe seen (map (fun t => (fst t, map (expand_line mal dl) (snd t))) l) =
  map (fun t => (fst t, map (expand_line mal dl) (snd t))) (dedupe seen l).
Proof.
  revert seen. induction l as [|[m ls] r IH]; intros seen; simpl; [reflexivity|].
  destruct (smem m seen); simpl; rewrite IH; reflexivity.
Qed.
End Untouched.

(* C05: the file and its textual expansion give the same decay tables (errors included) — wherever
   the definitions are placed, however often they are used, also in copied and conjugated tables *)
Theorem expansion_same_tables ccdb sc inc f : lits_numeric f ->
  parse_post ccdb sc inc (expand_src f) = parse_post ccdb sc inc f.
Proof.
  intros Hn. unfold parse_post, expand_src.
  rewrite model_aliases_untouched, defs_untouched, copies_untouched, ccdefs_untouched, cdecays_untouched.
  rewrite raw_decays_expand, dedupe_map, mapE_map.
  erewrite mapE_ext; [reflexivity|]. intros [m ls]. unfold resolve_table. simpl.
  rewrite mapE_map. erewrite mapE_ext; [reflexivity|]. intros d. apply resolve_expand_line. assumption.
Qed.
