(* HeapProofs.v — separation of the object graph parse() leaves behind (model: Dec/Heap.v).

   Main results
     parse_heap_separated : in the final state no Token and no Tree object occurs twice in the decay tables
                            (neither inside one table nor in two of them), and every identity is allocated;
     read_table_frame     : what a table denotes depends only on the tokens that occur in it;
     write_elsewhere      : hence a write to any token of one table leaves every other table as it was;
     no_type_error        : the value visitor never finds a token it has already converted
                            (the TypeError of finding F1 cannot occur). *)
From Coq Require Import String Ascii List Bool ZArith QArith Arith Lia.
From DL Require Import Lib.Val Lib.PyDict Lib.Sort Decay.Conj Decay.ChainDict Dec.Num Dec.Tables Dec.Syntax Dec.Post Dec.Heap.
Import ListNotations.
Close Scope Q_scope.
Open Scope string_scope.

(* ------------------------------------------------------------------ induction on identity-carrying trees *)
Lemma ot_ind' (P : ot -> Prop) :
  (forall i k, P (OTok i k)) ->
  (forall i d ch, Forall P ch -> P (OTree i d ch)) ->
  forall t, P t.
Proof.
  intros Ht Hn. fix IH 1. intros [i k|i d ch]; [apply Ht|]. apply Hn.
  induction ch as [|x r IHr]; constructor; [apply IH | exact IHr].
Qed.

Definition tids (ts : list ot) : list nat := flat_map tok_ids ts.
Definition nids (ts : list ot) : list nat := flat_map node_ids ts.
Definition ntok (s : hst) : nat := length (h_toks s).

Lemma tids_app a b : tids (a ++ b) = (tids a ++ tids b)%list.
Proof. apply flat_map_app. Qed.
Lemma nids_app a b : nids (a ++ b) = (nids a ++ nids b)%list.
Proof. apply flat_map_app. Qed.
Lemma tids_cons x r : tids (x :: r) = (tok_ids x ++ tids r)%list.
Proof. reflexivity. Qed.
Lemma nids_cons x r : nids (x :: r) = (node_ids x ++ nids r)%list.
Proof. reflexivity. Qed.
Lemma tids_one x : tids [x] = tok_ids x.
Proof. unfold tids. simpl. apply app_nil_r. Qed.
Lemma nids_one x : nids [x] = node_ids x.
Proof. unfold nids. simpl. apply app_nil_r. Qed.

(* ------------------------------------------------------------------ "ts was built from src between s and s'" *)
(* every Token of ts is a Token of src or was allocated between s and s'; every Tree of ts was allocated
   between s and s'; nothing occurs twice *)
Definition TL (s : hst) (src ts : list ot) (s' : hst) : Prop :=
  ntok s <= ntok s' /\ h_next s <= h_next s' /\
  NoDup (tids ts) /\ (forall i, In i (tids ts) -> In i (tids src) \/ (ntok s <= i < ntok s')) /\
  NoDup (nids ts) /\ (forall i, In i (nids ts) -> h_next s <= i < h_next s').
Definition AL (s : hst) (ts : list ot) (s' : hst) : Prop := TL s [] ts s'.

Lemma TL_nil s src : TL s src [] s.
Proof. unfold TL. simpl. repeat split; try lia; try constructor; intros i []. Qed.

Lemma NoDup_app_intro {A} (a b : list A) :
  NoDup a -> NoDup b -> (forall x, In x a -> In x b -> False) -> NoDup (a ++ b).
Proof.
  induction a as [|x r IH]; simpl; intros Ha Hb Hd; [exact Hb|].
  inversion Ha as [|? ? Hx Hr]; subst. constructor.
  - intros Hin. apply in_app_or in Hin. destruct Hin as [Hin|Hin]; [contradiction | eapply Hd; [left; reflexivity | exact Hin]].
  - apply IH; auto. intros y Hy Hy'. eapply Hd; [right; exact Hy | exact Hy'].
Qed.

Lemma NoDup_app_l {A} (a b : list A) : NoDup (a ++ b) -> NoDup a.
Proof. induction a as [|x r IH]; simpl; intros H; [constructor|]. inversion H; subst. constructor; [intros Hin; apply H2; apply in_or_app; auto | auto]. Qed.
Lemma NoDup_app_r {A} (a b : list A) : NoDup (a ++ b) -> NoDup b.
Proof. induction a as [|x r IH]; simpl; intros H; [exact H|]. inversion H; subst. auto. Qed.
Lemma NoDup_app_disj {A} (a b : list A) x : NoDup (a ++ b) -> In x a -> In x b -> False.
Proof.
  induction a as [|y r IH]; simpl; intros H Ha Hb; [contradiction|]. inversion H; subst.
  destruct Ha as [->|Ha]; [apply H2; apply in_or_app; auto | eapply IH; eauto].
Qed.

Lemma TL_app s s1 s2 a b ta tb :
  NoDup (tids (a ++ b)) -> (forall i, In i (tids (a ++ b)) -> i < ntok s) ->
  TL s a ta s1 -> TL s1 b tb s2 -> TL s (a ++ b) (ta ++ tb) s2.
Proof.
  intros Hnd Hlt (L1 & N1 & Da & Ia & Na & Ja) (L2 & N2 & Db & Ib & Nb & Jb).
  rewrite tids_app in Hnd, Hlt. unfold TL. rewrite !tids_app, !nids_app.
  split; [lia|]. split; [lia|]. split; [|split; [|split]].
  - apply NoDup_app_intro; auto. intros i Hi Hj.
    destruct (Ia i Hi) as [Hsa|Hfa], (Ib i Hj) as [Hsb|Hfb].
    + eapply NoDup_app_disj; eauto.
    + assert (i < ntok s) by (apply Hlt, in_or_app; auto). lia.
    + assert (i < ntok s) by (apply Hlt, in_or_app; auto). lia.
    + lia.
  - intros i Hi. apply in_app_or in Hi. destruct Hi as [Hi|Hi].
    + destruct (Ia i Hi) as [H|H]; [left; apply in_or_app; auto | right; lia].
    + destruct (Ib i Hi) as [H|H]; [left; apply in_or_app; auto | right; lia].
  - apply NoDup_app_intro; auto. intros i Hi Hj. specialize (Ja i Hi). specialize (Jb i Hj). lia.
  - intros i Hi. apply in_app_or in Hi. destruct Hi as [Hi|Hi]; [specialize (Ja i Hi) | specialize (Jb i Hi)]; lia.
Qed.

Lemma AL_app s s1 s2 ta tb : AL s ta s1 -> AL s1 tb s2 -> AL s (ta ++ tb) s2.
Proof.
  intros H1 H2. change (TL s ([] ++ []) (ta ++ tb) s2). eapply TL_app; eauto; simpl; [constructor | intros i []].
Qed.

Lemma AL_TL s src ts s' : AL s ts s' -> TL s src ts s'.
Proof.
  intros (L & N & D & I & Nn & J). unfold TL. split; [exact L|]. split; [exact N|]. split; [exact D|]. split; [|split; [exact Nn | exact J]].
  intros i Hi. destruct (I i Hi) as [[]|H]. right. exact H.
Qed.

(* widening the window on the right *)
Lemma TL_widen s src ts s1 s2 : TL s src ts s1 -> ntok s1 <= ntok s2 -> h_next s1 <= h_next s2 -> TL s src ts s2.
Proof.
  intros (L & N & D & I & Nn & J) H1 H2. unfold TL. split; [lia|]. split; [lia|]. split; [exact D|]. split; [|split; [exact Nn|]].
  - intros i Hi. destruct (I i Hi) as [H|H]; [left; exact H | right; lia].
  - intros i Hi. specialize (J i Hi). lia.
Qed.
(* ... and on the left *)
Lemma AL_widen_l s0 s ts s' : AL s ts s' -> ntok s0 <= ntok s -> h_next s0 <= h_next s -> AL s0 ts s'.
Proof.
  intros (L & N & D & I & Nn & J) H1 H2. unfold AL, TL. split; [lia|]. split; [lia|]. split; [exact D|]. split; [|split; [exact Nn|]].
  - intros i Hi. destruct (I i Hi) as [[]|H]. right. lia.
  - intros i Hi. specialize (J i Hi). lia.
Qed.

(* only the sizes of the two states matter *)
Lemma TL_sizes s s' t t' src ts :
  ntok s = ntok t -> h_next s = h_next t -> ntok s' = ntok t' -> h_next s' = h_next t' -> TL s src ts s' -> TL t src ts t'.
Proof. unfold TL. intros -> -> -> ->. auto. Qed.

(* ------------------------------------------------------------------ allocation of the file's trees *)
Lemma AL_fresh_tok s s' k : ntok s' = S (ntok s) -> h_next s' = h_next s -> AL s [OTok (ntok s) k] s'.
Proof.
  intros H1 H2. unfold AL, TL. rewrite tids_one, nids_one. simpl.
  split; [lia|]. split; [lia|]. split; [constructor; [intros []|constructor]|]. split; [|split; [constructor|intros i []]].
  intros i [<-|[]]. right. lia.
Qed.

Lemma AL_tok k v s t s' : mk_tok k v s = (t, s') -> AL s [t] s'.
Proof.
  unfold mk_tok. intros H. inversion H; subst; clear H. apply AL_fresh_tok; unfold ntok; simpl; [|reflexivity].
  rewrite app_length. simpl. lia.
Qed.

Lemma TL_tree s src ch' s1 d t s2 : TL s src ch' s1 -> mk_tree d ch' s1 = (t, s2) -> forall i0 d0, TL s [OTree i0 d0 src] [t] s2.
Proof.
  intros (L & N & D & I & Nn & J) H i0 d0. unfold mk_tree in H. inversion H; subst; clear H.
  unfold TL. rewrite !tids_one, nids_one. simpl. fold (tids ch') (nids ch') (tids src). unfold ntok in *. simpl.
  split; [lia|]. split; [lia|]. split; [exact D|]. split; [exact I|]. split.
  - constructor; [intros Hin; specialize (J _ Hin); lia | exact Nn].
  - intros i [<-|H]; [lia | specialize (J _ H); lia].
Qed.

Lemma AL_tree s ch s1 d t s2 : AL s ch s1 -> mk_tree d ch s1 = (t, s2) -> AL s [t] s2.
Proof.
  intros H1 H2. pose proof (TL_tree _ _ _ _ _ _ _ H1 H2 0 d) as H. destruct H as (L & N & D & I & Nn & J).
  unfold AL, TL. split; [exact L|]. split; [exact N|]. split; [exact D|]. split; [|split; [exact Nn | exact J]].
  intros i Hi. destruct (I i Hi) as [H|H]; [|right; exact H].
  rewrite tids_one in H. simpl in H. destruct H.
Qed.

Lemma AL_nil s : AL s [] s.
Proof. apply TL_nil. Qed.

Lemma AL_mapM {A} (f : A -> M ot) :
  (forall x s t s', f x s = (t, s') -> AL s [t] s') ->
  forall l s ts s', mapM f l s = (ts, s') -> AL s ts s'.
Proof.
  intros Hf. induction l as [|x r IH]; simpl; intros s ts s' H.
  - inversion H; subst. apply AL_nil.
  - unfold bind in H. destruct (f x s) as [y s1] eqn:E1. destruct (mapM f r s1) as [ys s2] eqn:E2.
    unfold ret in H. inversion H; subst. change (y :: ys) with ([y] ++ ys)%list. eapply AL_app; eauto.
Qed.

Ltac unbind H :=
  repeat (unfold bind, ret in H;
          match type of H with
          | (let '(_, _) := ?m in _) = _ => let E := fresh "E" in destruct m eqn:E
          | context [match ?m ?s with (_, _) => _ end] => let E := fresh "E" in destruct (m s) eqn:E
          end).

Lemma AL_particle n s t s' : mk_particle n s = (t, s') -> AL s [t] s'.
Proof.
  unfold mk_particle, bind. intros H. destruct (mk_tok "LABEL" n s) as [x s1] eqn:E. eapply AL_tree; [eapply AL_tok; exact E | exact H].
Qed.
Lemma AL_value n s t s' : mk_value n s = (t, s') -> AL s [t] s'.
Proof.
  unfold mk_value, bind. intros H. destruct (mk_tok "SIGNED_NUMBER" n s) as [x s1] eqn:E. eapply AL_tree; [eapply AL_tok; exact E | exact H].
Qed.
Lemma AL_param p s t s' : mk_param p s = (t, s') -> AL s [t] s'.
Proof. destruct p; simpl; [apply AL_value | apply AL_tok]. Qed.

Lemma AL_model_children m s ch s' : mk_model_children m s = (ch, s') -> AL s ch s'.
Proof.
  destruct m as [l|n [ps|]]; simpl; unfold bind, ret; intros H.
  - destruct (mk_tok "LABEL" l s) as [x s1] eqn:E1. destruct (mk_tree "model_label" [x] s1) as [y s2] eqn:E2.
    inversion H; subst. eapply AL_tree; [eapply AL_tok; exact E1 | exact E2].
  - destruct (mk_tok "MODEL_NAME" n s) as [x s1] eqn:E1. destruct (mapM mk_param ps s1) as [os s2] eqn:E2.
    destruct (mk_tree "model_options" os s2) as [o s3] eqn:E3. inversion H; subst.
    change [x; o] with ([x] ++ [o])%list. eapply AL_app; [eapply AL_tok; exact E1|].
    eapply AL_tree; [eapply AL_mapM; [apply AL_param | exact E2] | exact E3].
  - destruct (mk_tok "MODEL_NAME" n s) as [x s1] eqn:E1. inversion H; subst. eapply AL_tok; exact E1.
Qed.

Lemma AL_model m s t s' : mk_model m s = (t, s') -> AL s [t] s'.
Proof.
  unfold mk_model, bind. intros H. destruct (mk_model_children m s) as [ch s1] eqn:E.
  eapply AL_tree; [eapply AL_model_children; exact E | exact H].
Qed.

Lemma AL_line d s t s' : mk_line d s = (t, s') -> AL s [t] s'.
Proof.
  unfold mk_line, bind. intros H.
  destruct (mk_value (d_bf d) s) as [v s1] eqn:E1. destruct (mapM mk_particle (d_fs d) s1) as [ps s2] eqn:E2.
  assert (Hv := AL_value _ _ _ _ E1). assert (Hps := AL_mapM _ AL_particle _ _ _ _ E2).
  destruct (d_photos d).
  - destruct (mk_tree "photos" [] s2) as [x sx] eqn:Ex. unfold ret in H.
    destruct (mk_model (d_model d) sx) as [m s4] eqn:E4.
    eapply AL_tree; [|exact H]. change (v :: ps ++ [x] ++ [m])%list with ([v] ++ ps ++ [x] ++ [m])%list.
    eapply AL_app; [exact Hv|]. eapply AL_app; [exact Hps|].
    eapply AL_app; [eapply AL_tree; [apply AL_nil | exact Ex] | eapply AL_model; exact E4].
  - unfold ret in H. destruct (mk_model (d_model d) s2) as [m s4] eqn:E4.
    eapply AL_tree; [|exact H]. change (v :: ps ++ [] ++ [m])%list with ([v] ++ ps ++ [m])%list.
    eapply AL_app; [exact Hv|]. eapply AL_app; [exact Hps | eapply AL_model; exact E4].
Qed.

Lemma AL_decay m ls s t s' : mk_decay m ls s = (t, s') -> AL s [t] s'.
Proof.
  unfold mk_decay, bind. intros H. destruct (mk_particle m s) as [p s1] eqn:E1. destruct (mapM mk_line ls s1) as [lines s2] eqn:E2.
  eapply AL_tree; [|exact H]. change (p :: lines) with ([p] ++ lines)%list.
  eapply AL_app; [eapply AL_particle; exact E1 | eapply AL_mapM; [apply AL_line | exact E2]].
Qed.

Lemma AL_model_alias n m s t s' : mk_model_alias n m s = (t, s') -> AL s [t] s'.
Proof.
  unfold mk_model_alias, bind. intros H. destruct (mk_tok "LABEL" n s) as [x s1] eqn:E1.
  destruct (mk_tree "model_label" [x] s1) as [l s2] eqn:E2. destruct (mk_model m s2) as [mm s3] eqn:E3.
  eapply AL_tree; [|exact H]. change [l; mm] with ([l] ++ [mm])%list.
  eapply AL_app; [eapply AL_tree; [eapply AL_tok; exact E1 | exact E2] | eapply AL_model; exact E3].
Qed.

Lemma AL_file f : forall s F s', mk_file f s = (F, s') -> AL s F s'.
Proof.
  induction f as [|st r IH]; simpl; intros s F s' H.
  - unfold ret in H. inversion H; subst. apply AL_nil.
  - destruct st; try (apply IH; exact H); unfold bind, ret in H.
    + destruct (mk_decay m lines s) as [t s1] eqn:E1. destruct (mk_file r s1) as [ts s2] eqn:E2. inversion H; subst.
      change (t :: ts) with ([t] ++ ts)%list. eapply AL_app; [eapply AL_decay; exact E1 | eapply IH; exact E2].
    + destruct (mk_model_alias n m s) as [t s1] eqn:E1. destruct (mk_file r s1) as [ts s2] eqn:E2. inversion H; subst.
      change (t :: ts) with ([t] ++ ts)%list. eapply AL_app; [eapply AL_model_alias; exact E1 | eapply IH; exact E2].
Qed.

(* ------------------------------------------------------------------ sublists keep distinctness *)
Inductive sublist {A} : list A -> list A -> Prop :=
| sub_nil : sublist [] []
| sub_skip x l l' : sublist l l' -> sublist l (x :: l')
| sub_keep x l l' : sublist l l' -> sublist (x :: l) (x :: l').

Lemma sublist_in {A} (l l' : list A) x : sublist l l' -> In x l -> In x l'.
Proof. induction 1; simpl; intros Hin; auto. destruct Hin; auto. Qed.

Lemma sublist_flat_in {A B} (f : A -> list B) l l' x : sublist l l' -> In x (flat_map f l) -> In x (flat_map f l').
Proof.
  induction 1; simpl; intros Hin; auto.
  - apply in_or_app. right. auto.
  - apply in_app_or in Hin. apply in_or_app. destruct Hin; auto.
Qed.

Lemma sublist_flat_nodup {A B} (f : A -> list B) l l' : sublist l l' -> NoDup (flat_map f l') -> NoDup (flat_map f l).
Proof.
  induction 1; simpl; intros H0; auto.
  - apply IHsublist. eapply NoDup_app_r; eauto.
  - apply NoDup_app_intro; [eapply NoDup_app_l; eauto | apply IHsublist; eapply NoDup_app_r; eauto|].
    intros y Hy Hy'. eapply NoDup_app_disj; [exact H0 | exact Hy | eapply sublist_flat_in; eauto].
Qed.

Lemma sublist_filter {A} (p : A -> bool) l : sublist (filter p l) l.
Proof. induction l as [|x r IH]; simpl; [constructor|]. destruct (p x); [apply sub_keep | apply sub_skip]; auto. Qed.
Lemma sublist_refl {A} (l : list A) : sublist l l.
Proof. induction l; [constructor | apply sub_keep; auto]. Qed.
Lemma sublist_trans {A} (a b c : list A) : sublist a b -> sublist b c -> sublist a c.
Proof.
  intros H1 H2. revert a H1. induction H2; intros a H1.
  - exact H1.
  - apply sub_skip. auto.
  - inversion H1; subst; [apply sub_skip; auto | apply sub_keep; auto].
Qed.

Lemma dedupe_h_sublist h : forall ts seen, sublist (dedupe_h h seen ts) ts.
Proof.
  induction ts as [|t r IH]; simpl; intros seen; [constructor|].
  destruct (mother_of h t) as [m|]; [destruct (smem m seen)|]; [apply sub_skip | apply sub_keep | apply sub_keep]; auto.
Qed.

(* ------------------------------------------------------------------ copy.deepcopy on a structure without sharing *)
Definition memo_free (m : memo) (ts : list ot) : Prop :=
  (forall i, In i (tids ts) -> alook i (m_tok m) = None) /\ (forall i, In i (nids ts) -> alook i (m_node m) = None).

(* the copy of a sharing-free structure is freshly allocated; the memo only learns identities of the source *)
Definition memo_grows (m m' : memo) (ts : list ot) : Prop :=
  (forall i, alook i (m_tok m') <> None -> alook i (m_tok m) <> None \/ In i (tids ts)) /\
  (forall i, alook i (m_node m') <> None -> alook i (m_node m) <> None \/ In i (nids ts)).

Lemma memo_grows_refl m ts : memo_grows m m ts.
Proof. split; intros i H; left; exact H. Qed.

Lemma dcopy_spec : forall t m s t' m' s',
  NoDup (tok_ids t) -> NoDup (node_ids t) -> memo_free m [t] ->
  dcopy t m s = (t', m', s') -> AL s [t'] s' /\ memo_grows m m' [t].
Proof.
  induction t as [i k|i d ch IH] using ot_ind'; intros m s t' m' s' Hdt Hdn [Hft Hfn] H.
  - simpl in H. rewrite (Hft i) in H by (rewrite tids_one; simpl; auto). inversion H; subst; clear H. split.
    + apply AL_fresh_tok; unfold ntok; simpl; [rewrite app_length; simpl; lia | reflexivity].
    + split; intros j Hj; simpl in Hj; [|left; exact Hj].
      destruct (Nat.eqb j i) eqn:E; [apply Nat.eqb_eq in E; subst; right; rewrite tids_one; simpl; auto | left; exact Hj].
  - simpl in H. rewrite (Hfn i) in H by (rewrite nids_one; simpl; auto).
    (* the children *)
    assert (Hgo : forall l m s l' m1 s1,
               Forall (fun t => forall m s t' m' s', NoDup (tok_ids t) -> NoDup (node_ids t) -> memo_free m [t] ->
                                  dcopy t m s = (t', m', s') -> AL s [t'] s' /\ memo_grows m m' [t]) l ->
               NoDup (tids l) -> NoDup (nids l) -> memo_free m l ->
               (fix go (l : list ot) (m : memo) (s : hst) : list ot * memo * hst :=
                  match l with
                  | [] => ([], m, s)
                  | x :: r => let '(x', m1, s1) := dcopy x m s in
                              let '(r', m2, s2) := go r m1 s1 in (x' :: r', m2, s2)
                  end) l m s = (l', m1, s1) ->
               AL s l' s1 /\ memo_grows m m1 l).
    { clear. induction l as [|x r IHr]; intros m s l' m1 s1 HF Hdt Hdn [Hft Hfn] H.
      - inversion H; subst. split; [apply AL_nil | apply memo_grows_refl].
      - inversion HF as [|? ? Hx HFr]; subst.
        destruct (dcopy x m s) as [[x' mx] sx] eqn:Ex.
        match type of H with context [?g r mx sx] => destruct (g r mx sx) as [[r' mr] sr] eqn:Er end.
        inversion H; subst; clear H.
        rewrite tids_cons in Hdt, Hft. rewrite nids_cons in Hdn, Hfn.
        destruct (Hx m s x' mx sx) as [Ax Gx]; auto.
        { eapply NoDup_app_l; eauto. } { eapply NoDup_app_l; eauto. }
        { split; intros j Hj; [apply Hft | apply Hfn]; apply in_or_app; left;
            [rewrite tids_one in Hj | rewrite nids_one in Hj]; exact Hj. }
        destruct (IHr mx sx r' m1 s1) as [Ar Gr]; auto.
        { eapply NoDup_app_r; eauto. } { eapply NoDup_app_r; eauto. }
        { destruct Gx as [Gt Gn]. split; intros j Hj.
          - destruct (alook j (m_tok mx)) eqn:E; [|reflexivity]. exfalso.
            destruct (Gt j) as [H|H]; [rewrite E; discriminate | | ].
            + apply H. apply Hft. apply in_or_app. right. exact Hj.
            + rewrite tids_one in H. eapply NoDup_app_disj; [exact Hdt | exact H | exact Hj].
          - destruct (alook j (m_node mx)) eqn:E; [|reflexivity]. exfalso.
            destruct (Gn j) as [H|H]; [rewrite E; discriminate | | ].
            + apply H. apply Hfn. apply in_or_app. right. exact Hj.
            + rewrite nids_one in H. eapply NoDup_app_disj; [exact Hdn | exact H | exact Hj]. }
        split.
        + change (x' :: r') with ([x'] ++ r')%list. eapply AL_app; eauto.
        + destruct Gx as [Gt Gn], Gr as [Gt' Gn']. split; intros j Hj.
          * destruct (Gt' j Hj) as [H|H]; [destruct (Gt j H) as [H'|H']|].
            -- left. exact H'.
            -- right. rewrite tids_cons. apply in_or_app. left. rewrite tids_one in H'. exact H'.
            -- right. rewrite tids_cons. apply in_or_app. right. exact H.
          * destruct (Gn' j Hj) as [H|H]; [destruct (Gn j H) as [H'|H']|].
            -- left. exact H'.
            -- right. rewrite nids_cons. apply in_or_app. left. rewrite nids_one in H'. exact H'.
            -- right. rewrite nids_cons. apply in_or_app. right. exact H. }
    match type of H with context [?g ch m s] => destruct (g ch m s) as [[ch' m1] s1] eqn:Ego end.
    inversion H; subst; clear H.
    simpl in Hdt, Hdn. inversion Hdn as [|? ? Hni Hdn']; subst.
    destruct (Hgo ch m s ch' m1 s1) as [Ach Gch]; auto.
    { split; intros j Hj; [apply Hft; rewrite tids_one; simpl; exact Hj | apply Hfn; rewrite nids_one; simpl; right; exact Hj]. }
    split.
    + eapply AL_tree; [exact Ach | reflexivity].
    + destruct Gch as [Gt Gn]. split; intros j Hj; simpl in Hj.
      * destruct (Gt j Hj) as [H|H]; [left; exact H | right; rewrite tids_one; simpl; exact H].
      * destruct (Nat.eqb j i) eqn:E.
        -- apply Nat.eqb_eq in E. subst. right. rewrite nids_one. simpl. auto.
        -- destruct (Gn j Hj) as [H|H]; [left; exact H | right; rewrite nids_one; simpl; right; exact H].
Qed.

Lemma dcopy_list_spec : forall l m s l' m' s',
  NoDup (tids l) -> NoDup (nids l) -> memo_free m l ->
  dcopy_list l m s = (l', m', s') -> AL s l' s' /\ memo_grows m m' l.
Proof.
  induction l as [|x r IHr]; intros m s l' m1 s1 Hdt Hdn [Hft Hfn] H; simpl in H.
  - inversion H; subst. split; [apply AL_nil | apply memo_grows_refl].
  - destruct (dcopy x m s) as [[x' mx] sx] eqn:Ex. destruct (dcopy_list r mx sx) as [[r' mr] sr] eqn:Er.
    inversion H; subst; clear H. rewrite tids_cons in Hdt, Hft. rewrite nids_cons in Hdn, Hfn.
    destruct (dcopy_spec x m s x' mx sx) as [Ax Gx]; auto.
    { eapply NoDup_app_l; eauto. } { eapply NoDup_app_l; eauto. }
    { split; intros j Hj; [apply Hft | apply Hfn]; apply in_or_app; left;
        [rewrite tids_one in Hj | rewrite nids_one in Hj]; exact Hj. }
    destruct (IHr mx sx r' m1 s1) as [Ar Gr]; auto.
    { eapply NoDup_app_r; eauto. } { eapply NoDup_app_r; eauto. }
    { destruct Gx as [Gt Gn]. split; intros j Hj.
      - destruct (alook j (m_tok mx)) eqn:E; [|reflexivity]. exfalso.
        destruct (Gt j) as [H|H]; [rewrite E; discriminate | | ].
        + apply H. apply Hft. apply in_or_app. right. exact Hj.
        + rewrite tids_one in H. eapply NoDup_app_disj; [exact Hdt | exact H | exact Hj].
      - destruct (alook j (m_node mx)) eqn:E; [|reflexivity]. exfalso.
        destruct (Gn j) as [H|H]; [rewrite E; discriminate | | ].
        + apply H. apply Hfn. apply in_or_app. right. exact Hj.
        + rewrite nids_one in H. eapply NoDup_app_disj; [exact Hdn | exact H | exact Hj]. }
    split.
    + change (x' :: r') with ([x'] ++ r')%list. eapply AL_app; eauto.
    + destruct Gx as [Gt Gn], Gr as [Gt' Gn']. split; intros j Hj.
      * destruct (Gt' j Hj) as [H|H]; [destruct (Gt j H) as [H'|H']|].
        -- left. exact H'.
        -- right. rewrite tids_cons. apply in_or_app. left. rewrite tids_one in H'. exact H'.
        -- right. rewrite tids_cons. apply in_or_app. right. exact H.
      * destruct (Gn' j Hj) as [H|H]; [destruct (Gn j H) as [H'|H']|].
        -- left. exact H'.
        -- right. rewrite nids_cons. apply in_or_app. left. rewrite nids_one in H'. exact H'.
        -- right. rewrite nids_cons. apply in_or_app. right. exact H.
Qed.

Lemma memo0_free ts : memo_free memo0 ts.
Proof. split; intros; reflexivity. Qed.

Lemma AL_deepcopy t s c s' : NoDup (tok_ids t) -> NoDup (node_ids t) -> deepcopy t s = (c, s') -> AL s [c] s'.
Proof.
  unfold deepcopy. intros H1 H2 H. destruct (dcopy t memo0 s) as [[c' m] s1] eqn:E. inversion H; subst.
  eapply dcopy_spec; eauto. apply memo0_free.
Qed.
Lemma AL_deepcopy_list l s c s' : NoDup (tids l) -> NoDup (nids l) -> deepcopy_list l s = (c, s') -> AL s c s'.
Proof.
  unfold deepcopy_list. intros H1 H2 H. destruct (dcopy_list l memo0 s) as [[c' m] s1] eqn:E. inversion H; subst.
  eapply dcopy_list_spec; eauto. apply memo0_free.
Qed.

(* ------------------------------------------------------------------ the alias dictionary *)
Definition vals (d : pdict (list ot)) : list ot := flat_map snd d.

Lemma vals_cons k v d : vals ((k, v) :: d) = (v ++ vals d)%list.
Proof. reflexivity. Qed.

Lemma in_vals_set k v d i :
  In i (tids (vals (pd_set k v d))) -> In i (tids v) \/ In i (tids (vals d)).
Proof.
  induction d as [|[k' v'] r IH]; cbn [pd_set].
  - rewrite vals_cons, tids_app. intros H. apply in_app_or in H. destruct H; auto.
  - destruct (String.eqb k k'); rewrite !vals_cons, !tids_app; intros H; apply in_app_or in H.
    + destruct H as [H|H]; [left; exact H | right; apply in_or_app; right; exact H].
    + destruct H as [H|H]; [right; apply in_or_app; left; exact H|].
      destruct (IH H) as [H'|H']; [left; exact H' | right; apply in_or_app; right; exact H'].
Qed.
Lemma in_nvals_set k v d i :
  In i (nids (vals (pd_set k v d))) -> In i (nids v) \/ In i (nids (vals d)).
Proof.
  induction d as [|[k' v'] r IH]; cbn [pd_set].
  - rewrite vals_cons, nids_app. intros H. apply in_app_or in H. destruct H; auto.
  - destruct (String.eqb k k'); rewrite !vals_cons, !nids_app; intros H; apply in_app_or in H.
    + destruct H as [H|H]; [left; exact H | right; apply in_or_app; right; exact H].
    + destruct H as [H|H]; [right; apply in_or_app; left; exact H|].
      destruct (IH H) as [H'|H']; [left; exact H' | right; apply in_or_app; right; exact H'].
Qed.

Lemma nodup_vals_set k v d :
  NoDup (tids v) -> NoDup (tids (vals d)) -> (forall i, In i (tids v) -> In i (tids (vals d)) -> False) ->
  NoDup (tids (vals (pd_set k v d))).
Proof.
  induction d as [|[k' v'] r IH]; cbn [pd_set]; intros Hv Hd Hx.
  - rewrite vals_cons, tids_app. unfold vals, tids at 2. simpl. rewrite app_nil_r. exact Hv.
  - rewrite vals_cons, tids_app in Hd, Hx. destruct (String.eqb k k'); rewrite vals_cons, tids_app.
    + apply NoDup_app_intro; [exact Hv | eapply NoDup_app_r; eauto|].
      intros i Hi Hj. apply (Hx i Hi). apply in_or_app. right. exact Hj.
    + apply NoDup_app_intro; [eapply NoDup_app_l; eauto | |].
      * apply IH; [exact Hv | eapply NoDup_app_r; eauto|]. intros i Hi Hj. apply (Hx i Hi). apply in_or_app. right. exact Hj.
      * intros i Hi Hj. destruct (in_vals_set _ _ _ _ Hj) as [H|H].
        -- apply (Hx i H). apply in_or_app. left. exact Hi.
        -- eapply NoDup_app_disj; eauto.
Qed.
Lemma nodup_nvals_set k v d :
  NoDup (nids v) -> NoDup (nids (vals d)) -> (forall i, In i (nids v) -> In i (nids (vals d)) -> False) ->
  NoDup (nids (vals (pd_set k v d))).
Proof.
  induction d as [|[k' v'] r IH]; cbn [pd_set]; intros Hv Hd Hx.
  - rewrite vals_cons, nids_app. unfold vals, nids at 2. simpl. rewrite app_nil_r. exact Hv.
  - rewrite vals_cons, nids_app in Hd, Hx. destruct (String.eqb k k'); rewrite vals_cons, nids_app.
    + apply NoDup_app_intro; [exact Hv | eapply NoDup_app_r; eauto|].
      intros i Hi Hj. apply (Hx i Hi). apply in_or_app. right. exact Hj.
    + apply NoDup_app_intro; [eapply NoDup_app_l; eauto | |].
      * apply IH; [exact Hv | eapply NoDup_app_r; eauto|]. intros i Hi Hj. apply (Hx i Hi). apply in_or_app. right. exact Hj.
      * intros i Hi Hj. destruct (in_nvals_set _ _ _ _ Hj) as [H|H].
        -- apply (Hx i H). apply in_or_app. left. exact Hi.
        -- eapply NoDup_app_disj; eauto.
Qed.

(* the values of a dictionary: nothing twice, everything allocated between lo and s *)
Definition DOK (lo : hst) (d : pdict (list ot)) (s : hst) : Prop :=
  NoDup (tids (vals d)) /\ NoDup (nids (vals d)) /\
  (forall i, In i (tids (vals d)) -> ntok lo <= i < ntok s) /\ (forall i, In i (nids (vals d)) -> h_next lo <= i < h_next s).

(* parts of a sharing-free tree are sharing-free *)
Lemma nodup_flat_in {A B} (f : A -> list B) (l : list A) x : NoDup (flat_map f l) -> In x l -> NoDup (f x).
Proof.
  induction l as [|y r IH]; simpl; intros Hnd Hin; [contradiction|]. destruct Hin as [->|Hin].
  - eapply NoDup_app_l; eauto.
  - apply IH; [eapply NoDup_app_r; eauto | exact Hin].
Qed.

Lemma alias_entry_sub h t n body :
  alias_entry h t = Some (n, body) ->
  (forall i, In i (tids body) -> In i (tok_ids t)) /\ (forall i, In i (nids body) -> In i (node_ids t)) /\
  (NoDup (tok_ids t) -> NoDup (tids body)) /\ (NoDup (node_ids t) -> NoDup (nids body)).
Proof.
  destruct t as [|i d [|l [|[|j d' b] [|? ?]]]]; simpl; try discriminate.
  destruct (leafstr h l); [|discriminate]. intros H. inversion H; subst; clear H.
  fold (tids body) (nids body). rewrite !app_nil_r. repeat split.
  - intros i0 Hi. apply in_or_app. right. exact Hi.
  - intros i0 Hi. right. apply in_or_app. right. right. exact Hi.
  - intros Hnd. eapply NoDup_app_r; eauto.
  - intros Hnd. inversion Hnd as [|? ? _ Hnd']; subst. apply NoDup_app_r in Hnd'. inversion Hnd'; subst. assumption.
Qed.

Lemma raw_aliases_spec lo : forall F acc s d s',
  NoDup (tids F) -> NoDup (nids F) -> (forall i, In i (tids F) -> i < ntok lo) -> (forall i, In i (nids F) -> i < h_next lo) ->
  ntok lo <= ntok s -> h_next lo <= h_next s ->
  DOK lo acc s -> raw_aliases F acc s = (d, s') -> DOK lo d s' /\ ntok s <= ntok s' /\ h_next s <= h_next s'.
Proof.
  induction F as [|t r IH]; intros acc s d s' Hdt Hdn Hbt Hbn L1 L2 Hacc H; cbn [raw_aliases] in H.
  - unfold ret in H. inversion H; subst. auto.
  - rewrite tids_cons in Hdt, Hbt. rewrite nids_cons in Hdn, Hbn.
    assert (Hr : forall acc s d s', ntok lo <= ntok s -> h_next lo <= h_next s -> DOK lo acc s -> raw_aliases r acc s = (d, s') ->
                 DOK lo d s' /\ ntok s <= ntok s' /\ h_next s <= h_next s').
    { intros. eapply IH; eauto; try (eapply NoDup_app_r; eauto); intros; [apply Hbt | apply Hbn]; apply in_or_app; right; assumption. }
    destruct (is_data "model_alias" t); [|eapply Hr; eauto].
    destruct (alias_entry (h_toks s) t) as [[n body]|] eqn:Ea; [|eapply Hr; eauto].
    unfold bind in H. destruct (deepcopy_list body s) as [c s1] eqn:Ec.
    destruct (alias_entry_sub _ _ _ _ Ea) as (St & Sn & Nt & Nn).
    assert (Ac : AL s c s1).
    { eapply AL_deepcopy_list; [apply Nt | apply Nn | exact Ec]; eapply NoDup_app_l; eauto. }
    destruct Ac as (La & Na & Dc & Ic & Dnc & Jc). destruct Hacc as (A1 & A2 & A3 & A4).
    destruct (Hr (pd_set n c acc) s1 d s') as (R1 & R2 & R3); auto; try lia.
    + unfold DOK. split; [|split; [|split]].
      * apply nodup_vals_set; auto. intros i Hi Hj. destruct (Ic i Hi) as [[]|Hf]. specialize (A3 i Hj). lia.
      * apply nodup_nvals_set; auto. intros i Hi Hj. specialize (Jc i Hi). specialize (A4 i Hj). lia.
      * intros i Hi. destruct (in_vals_set _ _ _ _ Hi) as [H1|H1]; [destruct (Ic i H1) as [[]|Hf]; lia | specialize (A3 i H1); lia].
      * intros i Hi. destruct (in_nvals_set _ _ _ _ Hi) as [H1|H1]; [specialize (Jc i H1); lia | specialize (A4 i H1); lia].
    + split; [exact R1 | lia].
Qed.

(* copy.deepcopy of the dictionary = deepcopy of its values in order, one memo *)
Lemma dcopy_list_app : forall a b m s a' ma sa b' mb sb,
  dcopy_list a m s = (a', ma, sa) -> dcopy_list b ma sa = (b', mb, sb) -> dcopy_list (a ++ b) m s = ((a' ++ b')%list, mb, sb).
Proof.
  induction a as [|x r IH]; simpl; intros b m s a' ma sa b' mb sb Ha Hb.
  - inversion Ha; subst. exact Hb.
  - destruct (dcopy x m s) as [[x' mx] sx]. destruct (dcopy_list r mx sx) as [[r' mr] sr] eqn:Er. inversion Ha; subst.
    rewrite (IH b mx sx r' ma sa b' mb sb Er Hb). reflexivity.
Qed.

Lemma dcopy_dict_vals : forall d m s d' m' s',
  dcopy_dict d m s = (d', m', s') -> dcopy_list (vals d) m s = (vals d', m', s').
Proof.
  induction d as [|[k v] r IH]; simpl; intros m s d' m' s' H.
  - inversion H; subst. reflexivity.
  - destruct (dcopy_list v m s) as [[v' m1] s1] eqn:Ev. destruct (dcopy_dict r m1 s1) as [[r' m2] s2] eqn:Er. inversion H; subst.
    rewrite !vals_cons. eapply dcopy_list_app; [exact Ev | apply IH; exact Er].
Qed.

Lemma deepcopy_dict_spec d s d' s' :
  NoDup (tids (vals d)) -> NoDup (nids (vals d)) -> deepcopy_dict d s = (d', s') -> AL s (vals d') s'.
Proof.
  unfold deepcopy_dict. intros H1 H2 H. destruct (dcopy_dict d memo0 s) as [[c m] s1] eqn:E. inversion H; subst.
  apply dcopy_dict_vals in E. eapply dcopy_list_spec; eauto. apply memo0_free.
Qed.

Definition al_ok (al : pdict (list ot)) : Prop :=
  forall k body, pd_get k al = Some body -> NoDup (tids body) /\ NoDup (nids body).

Lemma al_ok_of_nodup al : NoDup (tids (vals al)) -> NoDup (nids (vals al)) -> al_ok al.
Proof.
  intros H1 H2 k body Hg. apply pd_get_some_in in Hg. split.
  - unfold vals, tids in H1. rewrite flat_map_concat_map in H1.
    revert H1. induction al as [|[k' v'] r IH]; [destruct Hg|]. simpl. intros H1.
    fold (tids v') in H1. destruct Hg as [Heq|Hin].
    + inversion Heq; subst. rewrite <- flat_map_concat_map in H1. rewrite flat_map_app in H1. eapply NoDup_app_l; eauto.
    + apply IH; auto.
      * simpl in H2. unfold vals in H2. simpl in H2. rewrite nids_app in H2. eapply NoDup_app_r; eauto.
      * rewrite <- flat_map_concat_map in H1. rewrite flat_map_app in H1. apply NoDup_app_r in H1.
        rewrite flat_map_concat_map in H1. exact H1.
  - unfold vals, nids in H2. rewrite flat_map_concat_map in H2.
    revert H2. induction al as [|[k' v'] r IH]; [destruct Hg|]. simpl. intros H2.
    destruct Hg as [Heq|Hin].
    + inversion Heq; subst. rewrite <- flat_map_concat_map in H2. rewrite flat_map_app in H2. eapply NoDup_app_l; eauto.
    + apply IH; auto.
      * unfold vals in H1. simpl in H1. rewrite tids_app in H1. eapply NoDup_app_r; eauto.
      * rewrite <- flat_map_concat_map in H2. rewrite flat_map_app in H2. apply NoDup_app_r in H2.
        rewrite flat_map_concat_map in H2. exact H2.
Qed.

(* ------------------------------------------------------------------ the Transformer *)
Lemma TL_same_tok s i k : TL s [OTok i k] [OTok i k] s.
Proof.
  unfold TL. rewrite tids_one, nids_one. simpl. split; [lia|]. split; [lia|].
  split; [constructor; [intros []|constructor]|]. split; [intros j Hj; left; exact Hj|]. split; [constructor | intros j []].
Qed.

Lemma transform_spec al : al_ok al -> forall t s t' s',
  NoDup (tok_ids t) -> (forall i, In i (tok_ids t) -> i < ntok s) ->
  transform al t s = (inl t', s') -> TL s [t] [t'] s'.
Proof.
  intros Hal. induction t as [i k|i d ch IH] using ot_ind'; intros s t' s' Hnd Hb H.
  - simpl in H. unfold retE in H. inversion H; subst. apply TL_same_tok.
  - cbn [transform] in H. unfold bindE at 1 in H.
    match type of H with context [?g ch s] => destruct (g ch s) as [[ch'|e] s1] eqn:Ego end; [|discriminate].
    assert (Hch : TL s ch ch' s1).
    { clear H. revert s ch' s1 Hb Ego. simpl in Hnd. fold (tids ch) in Hnd. simpl. fold (tids ch).
      induction ch as [|x r IHr]; intros s ch' s1 Hb Ego.
      - unfold retE in Ego. inversion Ego; subst. apply TL_nil.
      - inversion IH as [|? ? Hx HFr]; subst. unfold bindE at 1 in Ego.
        destruct (transform al x s) as [[x'|e] sx] eqn:Ex; [|discriminate]. unfold bindE at 1 in Ego.
        match type of Ego with context [?g r sx] => destruct (g r sx) as [[r'|e] sr] eqn:Er end; [|discriminate].
        unfold retE in Ego. inversion Ego; subst; clear Ego.
        rewrite tids_cons in Hnd, Hb.
        assert (Tx : TL s [x] [x'] sx).
        { apply Hx; [eapply NoDup_app_l; eauto | intros j Hj; apply Hb; apply in_or_app; left; exact Hj | exact Ex]. }
        assert (Lx : ntok s <= ntok sx) by (destruct Tx as (L & _); exact L).
        assert (Tr : TL sx r r' s1).
        { apply IHr; auto; [eapply NoDup_app_r; eauto|]. intros j Hj. assert (j < ntok s) by (apply Hb; apply in_or_app; right; exact Hj). lia. }
        change (x :: r) with ([x] ++ r)%list. change (x' :: r') with ([x'] ++ r')%list.
        eapply TL_app; eauto; rewrite tids_app, tids_one; auto. }
    assert (L1 : ntok s <= ntok s1 /\ h_next s <= h_next s1) by (destruct Hch as (A & B & _); auto).
    assert (Hdef : forall d0 t0 s0, liftE (mk_tree d0 ch') s1 = (inl t0, s0) -> TL s [OTree i d ch] [t0] s0).
    { intros d0 t0 s0 Hm. unfold liftE in Hm. destruct (mk_tree d0 ch' s1) as [y sy] eqn:Ey. inversion Hm; subst.
      eapply TL_tree; eauto. }
    destruct (String.eqb d "model"); [|eapply Hdef; exact H].
    destruct ch' as [|[j k|j dj [|lbl rest]] ch'']; try (eapply Hdef; exact H).
    destruct (tokstr (h_toks s1) lbl) as [name|]; [|discriminate].
    destruct (pd_get name al) as [body|] eqn:Eg; [|discriminate].
    destruct (Hal _ _ Eg) as [Nt Nn].
    unfold bindE, liftE in H. destruct (deepcopy_list body s1) as [b s2] eqn:Eb.
    destruct (mk_tree "model" b s2) as [y s3] eqn:Ey. inversion H; subst; clear H.
    apply AL_TL. eapply AL_widen_l; [|apply L1|apply L1].
    eapply AL_tree; [eapply AL_deepcopy_list; eauto | exact Ey].
Qed.

Lemma mapME_transform_spec al : al_ok al -> forall D s D' s',
  NoDup (tids D) -> (forall i, In i (tids D) -> i < ntok s) ->
  mapME (transform al) D s = (inl D', s') -> TL s D D' s'.
Proof.
  intros Hal. induction D as [|x r IH]; intros s D' s' Hnd Hb H; cbn [mapME] in H.
  - unfold retE in H. inversion H; subst. apply TL_nil.
  - unfold bindE at 1 in H. destruct (transform al x s) as [[x'|e] sx] eqn:Ex; [|discriminate].
    unfold bindE at 1 in H. destruct (mapME (transform al) r sx) as [[r'|e] sr] eqn:Er; [|discriminate].
    unfold retE in H. inversion H; subst; clear H. rewrite tids_cons in Hnd, Hb.
    assert (Tx : TL s [x] [x'] sx).
    { eapply transform_spec; eauto; [eapply NoDup_app_l; eauto | intros j Hj; apply Hb; apply in_or_app; left; exact Hj]. }
    assert (Lx : ntok s <= ntok sx) by (destruct Tx as (L & _); exact L).
    assert (Tr : TL sx r r' s').
    { apply IH; auto; [eapply NoDup_app_r; eauto|]. intros j Hj. assert (j < ntok s) by (apply Hb; apply in_or_app; right; exact Hj). lia. }
    change (x :: r) with ([x] ++ r)%list. change (x' :: r') with ([x'] ++ r')%list.
    eapply TL_app; eauto; rewrite tids_app, tids_one; auto.
Qed.

(* ------------------------------------------------------------------ the value visitor keeps the size of the token store *)
Lemma upd_length {A} i (v : A) l : length (upd i v l) = length l.
Proof. revert i. induction l as [|x r IH]; intros [|i]; simpl; auto. Qed.

Lemma replace_child_length defs c h h' : replace_child defs c h = inl h' -> length h' = length h.
Proof.
  destruct c as [i k|i d [|[j k|? ? ?] rest]]; simpl; try discriminate.
  - destruct (nth_error h i) as [[[|a s]|q]|]; try discriminate. unfold is_c.
    intros H. repeat match type of H with
             | context [if ?b then _ else _] => destruct b
             | context [match pd_get ?k ?d with _ => _ end] => destruct (pd_get k d)
             end; inversion H; subst; rewrite ?upd_length; reflexivity.
  - destruct (nth_error h j) as [[s|q]|]; try discriminate; intros H; inversion H; subst; rewrite ?upd_length; reflexivity.
Qed.

Lemma foldE_length {A} (f : A -> list tval -> list tval + herr) :
  (forall x h h', f x h = inl h' -> length h' = length h) ->
  forall l h h', foldE f l h = inl h' -> length h' = length h.
Proof.
  intros Hf. induction l as [|x r IH]; simpl; intros h h' H; [inversion H; reflexivity|].
  destruct (f x h) as [h1|e] eqn:E; [|discriminate]. rewrite (IH _ _ H). eapply Hf; eauto.
Qed.

Lemma visit_params_length defs t h h' : visit_params defs t h = inl h' -> length h' = length h.
Proof.
  unfold visit_params. apply foldE_length. intros mo h0 h1. apply foldE_length. apply replace_child_length.
Qed.

(* ------------------------------------------------------------------ CopyDecay *)
Lemma find_last_in h m : forall ts acc t, find_last h m ts acc = Some t -> In t ts \/ acc = Some t.
Proof.
  induction ts as [|x r IH]; simpl; intros acc t H; [right; exact H|].
  destruct (IH _ _ H) as [Hin|Hacc]; [left; right; exact Hin|].
  destruct (mother_of h x) as [m'|]; [destruct (String.eqb m m')|]; auto.
  inversion Hacc; subst. left. left. reflexivity.
Qed.

Lemma write_sizes i v s : ntok (write i v s) = ntok s /\ h_next (write i v s) = h_next s.
Proof. unfold write, ntok. simpl. rewrite upd_length. auto. Qed.

Lemma copy_decays_spec D : (forall t, In t D -> NoDup (tok_ids t) /\ NoDup (node_ids t)) ->
  forall copies s cps s', copy_decays copies D s = (cps, s') -> AL s cps s'.
Proof.
  intros HD. induction copies as [|[new old] r IH]; intros s cps s' H; cbn [copy_decays] in H.
  - unfold ret in H. inversion H; subst. apply AL_nil.
  - destruct (find_last (h_toks s) old D None) as [src|] eqn:Ef; [|apply IH; exact H].
    unfold bind, ret in H. destruct (deepcopy src s) as [c s1] eqn:Ec.
    match type of H with context [copy_decays r D ?st] => destruct (copy_decays r D st) as [cs s2] eqn:Er end.
    inversion H; subst; clear H.
    destruct (find_last_in _ _ _ _ _ Ef) as [Hin|Hn]; [|discriminate]. destruct (HD _ Hin) as [N1 N2].
    change (c :: cs) with ([c] ++ cs)%list. eapply AL_app; [eapply AL_deepcopy; eauto|].
    apply IH in Er. destruct (mother_tok c) as [i|]; [|exact Er].
    destruct (write_sizes i (TS new) s1) as [W1 W2]. eapply TL_sizes; [| | | |exact Er]; auto.
Qed.

(* ------------------------------------------------------------------ CDecay *)
Lemma cc_copy_spec : forall ts s cs s', (forall t, In t ts -> NoDup (tok_ids t) /\ NoDup (node_ids t)) ->
  cc_copy ts s = (cs, s') -> AL s cs s'.
Proof.
  induction ts as [|t r IH]; intros s cs s' HD H; cbn [cc_copy] in H.
  - unfold ret in H. inversion H; subst. apply AL_nil.
  - unfold bind, ret in H. destruct (deepcopy t s) as [c s1] eqn:Ec. destruct (cc_copy r s1) as [cs' s2] eqn:Er.
    inversion H; subst. destruct (HD t (or_introl eq_refl)) as [N1 N2].
    change (c :: cs') with ([c] ++ cs')%list. eapply AL_app; [eapply AL_deepcopy; eauto | eapply IH; eauto].
    intros t' Hin. apply HD. right. exact Hin.
Qed.

Lemma cc_visit_length ccdb acc i : length (snd (cc_visit ccdb acc i)) = length (snd acc).
Proof.
  destruct acc as [d h]. unfold cc_visit. destruct (nth_error h i) as [[p|q]|]; simpl; rewrite ?upd_length; reflexivity.
Qed.
Lemma cc_visits_length ccdb : forall l acc, length (snd (fold_left (cc_visit ccdb) l acc)) = length (snd acc).
Proof. induction l as [|i r IH]; simpl; intros acc; [reflexivity|]. rewrite IH. apply cc_visit_length. Qed.

Lemma cc_step_length ccdb sc acc t : length (snd (cc_step ccdb sc acc t)) = length (snd acc).
Proof.
  destruct acc as [d h]. unfold cc_step. destruct (mother_of h t) as [m|]; [|reflexivity].
  destruct (sc m) as [[|]|]; try reflexivity; destruct d as [|kv d']; simpl; apply cc_visits_length.
Qed.
Lemma cc_steps_length ccdb sc : forall l acc, length (snd (fold_left (cc_step ccdb sc) l acc)) = length (snd acc).
Proof. induction l as [|i r IH]; simpl; intros acc; [reflexivity|]. rewrite IH. apply cc_step_length. Qed.

Lemma cc_decays_spec ccdb sc cdecays ccdefs D s ccs s' :
  (forall t, In t D -> NoDup (tok_ids t) /\ NoDup (node_ids t)) ->
  cc_decays ccdb sc cdecays ccdefs D s = (ccs, s') -> AL s ccs s'.
Proof.
  intros HD H. unfold cc_decays in H.
  destruct (cc_names_h cdecays (mothers_h (h_toks s) D)) as [|n0 names]; [inversion H; subst; apply AL_nil|].
  match type of H with context [cc_copy ?x s] => set (srcs := x) in *; destruct (cc_copy srcs s) as [cs s1] eqn:Ec end.
  inversion H; subst; clear H.
  assert (A : AL s ccs s1).
  { eapply cc_copy_spec; [|exact Ec]. intros t Hin. unfold srcs in Hin. apply in_flat_map in Hin.
    destruct Hin as (X & _ & Hin). destruct (find_last _ _ D None) as [t0|] eqn:Ef; [|destruct Hin].
    destruct Hin as [<-|[]]. destruct (find_last_in _ _ _ _ _ Ef) as [Hi|Hn]; [apply HD; exact Hi | discriminate]. }
  eapply TL_sizes; [| | | |exact A]; auto. unfold ntok. simpl. rewrite cc_steps_length. reflexivity.
Qed.

(* ------------------------------------------------------------------ parse(): the tables share nothing *)
Definition separated (ts : list ot) : Prop := NoDup (tids ts) /\ NoDup (nids ts).
Definition bounded_by (s : hst) (ts : list ot) : Prop :=
  (forall i, In i (tids ts) -> i < ntok s) /\ (forall i, In i (nids ts) -> i < h_next s).

Lemma separated_each ts t : separated ts -> In t ts -> NoDup (tok_ids t) /\ NoDup (node_ids t).
Proof. intros [H1 H2] Hin. split; [eapply (nodup_flat_in tok_ids) | eapply (nodup_flat_in node_ids)]; eauto. Qed.

Lemma AL_sep_bounded s ts s' : AL s ts s' -> separated ts /\ bounded_by s' ts.
Proof.
  intros (L & N & D & I & Nn & J). split; [split; assumption|]. split; intros i Hi.
  - destruct (I i Hi) as [[]|H]. lia.
  - specialize (J i Hi). lia.
Qed.

Lemma TL_sep_bounded s src ts s' : bounded_by s src -> TL s src ts s' -> separated ts /\ bounded_by s' ts.
Proof.
  intros [B1 B2] (L & N & D & I & Nn & J). split; [split; assumption|]. split; intros i Hi.
  - destruct (I i Hi) as [H|H]; [specialize (B1 i H)|]; lia.
  - specialize (J i Hi). lia.
Qed.

Lemma sep_app_fresh a b s s' : separated a -> bounded_by s a -> AL s b s' -> separated (a ++ b) /\ bounded_by s' (a ++ b).
Proof.
  intros [A1 A2] [B1 B2] (L & N & D & I & Nn & J). split; [split|split].
  - rewrite tids_app. apply NoDup_app_intro; auto. intros i Hi Hj. specialize (B1 i Hi). destruct (I i Hj) as [[]|H]. lia.
  - rewrite nids_app. apply NoDup_app_intro; auto. intros i Hi Hj. specialize (B2 i Hi). specialize (J i Hj). lia.
  - intros i Hi. rewrite tids_app in Hi. apply in_app_or in Hi. destruct Hi as [Hi|Hi]; [specialize (B1 i Hi); lia|].
    destruct (I i Hi) as [[]|H]. lia.
  - intros i Hi. rewrite nids_app in Hi. apply in_app_or in Hi. destruct Hi as [Hi|Hi]; [specialize (B2 i Hi) | specialize (J i Hi)]; lia.
Qed.

Lemma bounded_sizes s t ts : ntok s = ntok t -> h_next s = h_next t -> bounded_by s ts -> bounded_by t ts.
Proof. unfold bounded_by. intros -> ->. auto. Qed.

Theorem parse_heap_separated ccdb sc inc f r :
  parse_heap ccdb sc inc f = inl r -> separated (r_decays r) /\ bounded_by (r_state r) (r_decays r).
Proof.
  unfold parse_heap. intros H.
  destruct (mk_file f {| h_toks := []; h_next := 0 |}) as [F s1] eqn:EF.
  destruct (raw_aliases F [] s1) as [al0 s2] eqn:Eal0.
  destruct (deepcopy_dict al0 s2) as [al s3] eqn:Eal.
  match type of H with context [mapME (transform al) ?D s3] => set (D0 := D) in * end.
  destruct (mapME (transform al) D0 s3) as [[D1|e] s4] eqn:ED1; [|discriminate].
  destruct (foldE (visit_params (defs_of f)) D1 (h_toks s4)) as [h5|e] eqn:Eh5; [|discriminate].
  (* the file *)
  apply AL_file in EF. destruct (AL_sep_bounded _ _ _ EF) as [[SF1 SF2] [BF1 BF2]].
  (* the alias dictionary *)
  destruct (raw_aliases_spec s1 F [] s1 al0 s2) as (Hd0 & L12 & N12); auto.
  { unfold DOK, vals, tids, nids. simpl. split; [constructor|]. split; [constructor|]. split; intros i []. }
  destruct Hd0 as (V1 & V2 & _ & _).
  pose proof (deepcopy_dict_spec _ _ _ _ V1 V2 Eal) as Aal. destruct (AL_sep_bounded _ _ _ Aal) as [[SA1 SA2] _].
  assert (L23 : ntok s2 <= ntok s3 /\ h_next s2 <= h_next s3) by (destruct Aal as (A & B & _); auto).
  pose proof (al_ok_of_nodup _ SA1 SA2) as Hal.
  (* the transformed trees *)
  assert (Sub : sublist D0 F).
  { unfold D0. eapply sublist_trans; [apply dedupe_h_sublist | apply sublist_filter]. }
  assert (ND0 : NoDup (tids D0)) by (eapply sublist_flat_nodup; eauto).
  assert (BD0 : bounded_by s3 D0).
  { split; intros i Hi.
    - assert (i < ntok s1) by (apply BF1; eapply sublist_flat_in; eauto). lia.
    - assert (i < h_next s1) by (apply BF2; eapply sublist_flat_in; eauto). lia. }
  pose proof (mapME_transform_spec al Hal D0 s3 D1 s4 ND0 (proj1 BD0) ED1) as T1.
  destruct (TL_sep_bounded _ _ _ _ BD0 T1) as [S1 B1].
  (* the value visitor *)
  assert (Len5 : length h5 = length (h_toks s4)).
  { eapply foldE_length; [|exact Eh5]. intros. eapply visit_params_length; eauto. }
  set (s5 := {| h_toks := h5; h_next := h_next s4 |}) in *.
  assert (B5 : bounded_by s5 D1) by (eapply bounded_sizes; [| |exact B1]; unfold ntok; simpl; auto).
  (* CopyDecay *)
  destruct (copy_decays (copies_of f) D1 s5) as [cps s6] eqn:Ecp.
  assert (Acp : AL s5 cps s6).
  { eapply copy_decays_spec; [|exact Ecp]. intros t Hin. eapply separated_each; eauto. }
  destruct (sep_app_fresh _ _ _ _ S1 B5 Acp) as [S2 B2].
  destruct inc.
  - destruct (cc_decays ccdb sc (cdecays_of f) (ccdefs_of f) (D1 ++ cps) s6) as [ccs s7] eqn:Ecc.
    inversion H; subst; clear H. simpl.
    assert (Acc : AL s6 ccs s7).
    { eapply cc_decays_spec; [|exact Ecc]. intros t Hin. eapply separated_each; eauto. }
    apply (sep_app_fresh _ _ _ _ S2 B2 Acc).
  - inversion H; subst; clear H. simpl. split; assumption.
Qed.

(* ------------------------------------------------------------------ frame: a table reads only its own tokens *)
Definition agree (h h' : list tval) (ids : list nat) : Prop := forall i, In i ids -> nth_error h i = nth_error h' i.

Lemma agree_sub h h' a b : agree h h' b -> (forall i, In i a -> In i b) -> agree h h' a.
Proof. intros H S i Hi. apply H, S, Hi. Qed.

Lemma tokval_ext h h' t : agree h h' (tok_ids t) -> tokval h t = tokval h' t.
Proof. destruct t as [i k|]; simpl; intros H; [apply H; left; reflexivity | reflexivity]. Qed.
Lemma tokstr_ext h h' t : agree h h' (tok_ids t) -> tokstr h t = tokstr h' t.
Proof. intros H. unfold tokstr. rewrite (tokval_ext _ _ _ H). reflexivity. Qed.

Lemma child_ids i d ch x : In x ch -> forall j, In j (tok_ids x) -> In j (tok_ids (OTree i d ch)).
Proof. intros Hin j Hj. simpl. apply in_flat_map. exists x. auto. Qed.

Lemma leafstr_ext h h' t : agree h h' (tok_ids t) -> leafstr h t = leafstr h' t.
Proof.
  destruct t as [i k|i d [|x r]]; simpl; intros H; try reflexivity.
  apply tokstr_ext. eapply agree_sub; [exact H|]. intros j Hj. apply in_or_app. left. exact Hj.
Qed.

Lemma mapO_ext {A B} (f g : A -> option B) l : (forall x, In x l -> f x = g x) -> mapO f l = mapO g l.
Proof.
  induction l as [|x r IH]; simpl; intros H; [reflexivity|]. rewrite (H x (or_introl eq_refl)), IH; auto.
Qed.

Lemma read_param_ext h h' c : agree h h' (tok_ids c) -> read_param h c = read_param h' c.
Proof.
  destruct c as [i k|i d [|x r]]; intros H; try reflexivity.
  - unfold read_param. rewrite (tokval_ext _ _ _ H). reflexivity.
  - unfold read_param. rewrite (tokval_ext h h' x); [reflexivity|].
    eapply agree_sub; [exact H|]. intros j Hj. simpl. apply in_or_app. left. exact Hj.
Qed.

Lemma read_model_ext h h' m : agree h h' (tok_ids m) -> read_model h m = read_model h' m.
Proof.
  destruct m as [i k|i d ch]; intros H; [reflexivity|].
  destruct ch as [|n [|o [|? ?]]]; try reflexivity.
  - unfold read_model. rewrite (tokstr_ext h h' n); [reflexivity|].
    eapply agree_sub; [exact H|]. apply child_ids. left. reflexivity.
  - destruct o as [|j dj os]; try reflexivity. unfold read_model.
    rewrite (tokstr_ext h h' n) by (eapply agree_sub; [exact H|]; apply child_ids; left; reflexivity).
    rewrite (mapO_ext (read_param h) (read_param h') os); [reflexivity|].
    intros c Hc. apply read_param_ext. eapply agree_sub; [exact H|]. intros a Ha.
    eapply child_ids; [right; left; reflexivity|]. eapply child_ids; eauto.
Qed.

Lemma read_line_ext h h' l : agree h h' (tok_ids l) -> read_line h l = read_line h' l.
Proof.
  destruct l as [i k|i d [|v rest]]; intros H; try reflexivity. unfold read_line.
  rewrite (leafstr_ext h h' v) by (eapply agree_sub; [exact H|]; apply child_ids; left; reflexivity).
  destruct (leafstr h' v); [|reflexivity]. destruct (rev rest) as [|m mid] eqn:Er; [reflexivity|].
  assert (Hin : forall x, In x (m :: mid) -> In x (v :: rest)).
  { intros x Hx. right. apply in_rev. rewrite Er. exact Hx. }
  rewrite (read_model_ext h h' m) by (eapply agree_sub; [exact H|]; apply child_ids; apply Hin; left; reflexivity).
  rewrite (mapO_ext (leafstr h) (leafstr h') (filter (is_data "particle") (rev mid))); [reflexivity|].
  intros x Hx. apply leafstr_ext. eapply agree_sub; [exact H|]. apply child_ids. apply Hin. right.
  apply filter_In in Hx. apply in_rev. exact (proj1 Hx).
Qed.

Theorem read_table_frame h h' t : agree h h' (tok_ids t) -> read_table h t = read_table h' t.
Proof.
  destruct t as [i k|i d [|p lines]]; intros H; try reflexivity. unfold read_table.
  rewrite (leafstr_ext h h' p) by (eapply agree_sub; [exact H|]; apply child_ids; left; reflexivity).
  rewrite (mapO_ext (read_line h) (read_line h') lines); [reflexivity|].
  intros l Hl. apply read_line_ext. eapply agree_sub; [exact H|]. apply child_ids. right. exact Hl.
Qed.

Lemma nth_error_upd_other {A} i j (v : A) l : i <> j -> nth_error (upd i v l) j = nth_error l j.
Proof.
  revert i j. induction l as [|x r IH]; intros [|i] [|j] Hne; simpl; auto; try congruence.
Qed.

(* a write to a token of one table does not change what any other table denotes *)
Theorem write_elsewhere D h i v t t' :
  separated D -> In t D -> In t' D -> t <> t' -> In i (tok_ids t) -> read_table (upd i v h) t' = read_table h t'.
Proof.
  intros [Hnd _] Ht Ht' Hne Hi. apply read_table_frame. intros j Hj. apply nth_error_upd_other.
  intros ->. clear -Hnd Ht Ht' Hne Hi Hj. unfold tids in Hnd.
  induction D as [|x r IH]; [destruct Ht|]. simpl in Hnd. destruct Ht as [->|Ht], Ht' as [->|Ht'].
  - congruence.
  - eapply NoDup_app_disj; [exact Hnd | exact Hi | apply in_flat_map; exists t'; auto].
  - eapply NoDup_app_disj; [exact Hnd | exact Hj | apply in_flat_map; exists t; auto].
  - apply IH; auto. eapply NoDup_app_r; eauto.
Qed.

(* ... in particular in the state parse() leaves behind: copied and conjugated tables are independent of their sources *)
Corollary parse_heap_tables_independent ccdb sc inc f r i v t t' :
  parse_heap ccdb sc inc f = inl r -> In t (r_decays r) -> In t' (r_decays r) -> t <> t' -> In i (tok_ids t) ->
  read_table (upd i v (h_toks (r_state r))) t' = read_table (h_toks (r_state r)) t'.
Proof. intros H. destruct (parse_heap_separated _ _ _ _ _ H) as [S _]. apply write_elsewhere. exact S. Qed.
