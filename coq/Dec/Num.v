(* Num.v — numeric literals of the .dec grammar (common.SIGNED_NUMBER of Lark):
     [+-]? ( digits [ '.' digits* ] | '.' digits+ ) ( [eE] [+-]? digits+ )?
   with their exact rational value, as Python's float()/int() read them (float() rounds that value
   correctly; the correspondence compares  float(model value) == implementation float).  *)
From Coq Require Import String Ascii List Bool ZArith QArith Arith.
Import ListNotations.
Close Scope Q_scope.
Open Scope string_scope.

Definition is_digit (c : ascii) : bool := let n := nat_of_ascii c in Nat.leb 48 n && Nat.leb n 57.
Definition digit_val (c : ascii) : Z := Z.of_nat (nat_of_ascii c - 48).

(* read a run of digits: (value so far, number of digits, rest) *)
Fixpoint digits (s : string) (acc : Z) (n : nat) : Z * nat * string :=
  match s with
  | String c r => if is_digit c then digits r (acc * 10 + digit_val c)%Z (S n) else (acc, n, s)
  | EmptyString => (acc, n, s)
  end.

Definition is_c (c : ascii) (d : string) : bool :=
  match d with String e EmptyString => Ascii.eqb c e | _ => false end.

Definition read_sign (s : string) : bool * string :=      (* true = negative *)
  match s with
  | String c r => if is_c c "-" then (true, r) else if is_c c "+" then (false, r) else (false, s)
  | _ => (false, s)
  end.

Definition pow10 (e : Z) : Q :=
  if (0 <=? e)%Z then inject_Z (10 ^ e) else (1 # Z.to_pos (10 ^ (- e))).

(* the part after the optional sign *)
Definition read_frac (ip : Z) (s2 : string) : Z * nat * bool * string :=
  match s2 with
  | String c r => if is_c c "." then let '(m, nf, s') := digits r ip 0 in (m, nf, true, s') else (ip, 0, false, s2)
  | _ => (ip, 0, false, s2)
  end.

Definition read_exp (s3 : string) : bool * Z * bool :=
  match s3 with
  | EmptyString => (true, 0%Z, false)
  | String c r =>
      if is_c c "e" || is_c c "E" then
        let '(eneg, r1) := read_sign r in
        let '(ev, ne, r2) := digits r1 0%Z 0 in
        match r2 with
        | EmptyString => if Nat.eqb ne 0 then (false, 0%Z, true) else (true, if eneg then (- ev)%Z else ev, true)
        | _ => (false, 0%Z, true)
        end
      else (false, 0%Z, false)
  end.

Definition numtail (neg : bool) (s1 : string) : option (Q * bool) :=
  let '(ip, ni, s2) := digits s1 0%Z 0 in
  let '(mant, nfrac, has_dot, s3) := read_frac ip s2 in
  if Nat.eqb (ni + nfrac) 0 then None
  else
    let '(ok, ex, has_exp) := read_exp s3 in
    if ok then
      let v := (inject_Z (if neg then (- mant)%Z else mant) * pow10 (ex - Z.of_nat nfrac))%Q in
      Some (Qred v, negb has_dot && negb has_exp)
    else None.

(* Some (value, is_integer_literal) when the whole string is a numeric literal *)
Definition numval (s : string) : option (Q * bool) :=
  let '(neg, s1) := read_sign s in numtail neg s1.

Definition numq (s : string) : Q := match numval s with Some (q, _) => q | None => 0%Q end.
Definition is_num (s : string) : bool := match numval s with Some _ => true | None => false end.

(* ------------------------------------------------------------------ negating a literal textually *)
Definition neg_lit (lit : string) : string :=
  match lit with
  | String c r => if is_c c "-" then String "+" r else if is_c c "+" then String "-" r else String "-" lit
  | EmptyString => "-"
  end.

Lemma numtail_neg s1 :
  numtail true s1 = match numtail false s1 with Some (q, b) => Some (Qopp q, b) | None => None end.
Proof.
  unfold numtail.
  destruct (digits s1 0%Z 0) as [[ip ni] s2].
  destruct (read_frac ip s2) as [[[mant nfrac] has_dot] s3].
  destruct (Nat.eqb (ni + nfrac) 0); [reflexivity|].
  destruct (read_exp s3) as [[ok ex] has_exp].
  destruct ok; [|reflexivity]. f_equal. f_equal.
  rewrite <- Qred_opp. f_equal.
  unfold Qmult, Qopp, inject_Z. simpl. f_equal. rewrite Z.mul_opp_l. reflexivity.
Qed.

Lemma Qopp_opp_eq q : Qopp (Qopp q) = q.
Proof. destruct q as [n d]. unfold Qopp. simpl. rewrite Z.opp_involutive. reflexivity. Qed.

Definition signed_val (s : string) : option (Q * bool) := numval s.

Lemma numval_cons c r :
  numval (String c r) = if is_c c "-" then numtail true r else if is_c c "+" then numtail false r else numtail false (String c r).
Proof. unfold numval, read_sign. destruct (is_c c "-"); [reflexivity|]. destruct (is_c c "+"); reflexivity. Qed.

Theorem numq_neg_lit lit : is_num lit = true -> numq (neg_lit lit) = Qopp (numq lit).
Proof.
  unfold is_num, numq. destruct lit as [|c r]; [vm_compute; discriminate|].
  unfold neg_lit. rewrite (numval_cons c r).
  destruct (is_c c "-") eqn:Em.
  - rewrite (numval_cons "+" r). change (is_c "+" "-") with false. change (is_c "+" "+") with true. cbn iota.
    rewrite numtail_neg. destruct (numtail false r) as [[q b]|]; [|discriminate]. intros _.
    rewrite Qopp_opp_eq. reflexivity.
  - destruct (is_c c "+") eqn:Ep.
    + rewrite (numval_cons "-" r). change (is_c "-" "-") with true. cbn iota.
      rewrite numtail_neg. destruct (numtail false r) as [[q b]|]; [|discriminate]. reflexivity.
    + rewrite (numval_cons "-" (String c r)). change (is_c "-" "-") with true. cbn iota.
      rewrite numtail_neg. destruct (numtail false (String c r)) as [[q b]|]; [|discriminate]. reflexivity.
Qed.
