(* ItemParser.v — the statement structure of a .dec file over the items of Layout.v: a deterministic automaton with the
   positions of data/decfile.lark (start, line, decay, decayline, model, model_options, ...) as control states.
   Words are classified per position the way the contextual lexer does for WHOLE words:
     - model position: MODEL_NAME (priority 2, Dec/ModelName.match_alts over the regenerated alternation) before PHOTOS/LABEL;
     - number positions: SIGNED_NUMBER before LABEL;
     - keyword positions: the keyword strings.
   A word the lexer would cut in two (a number or model name or keyword followed by further characters) is outside the
   modelled domain: the automaton rejects it (None); the correspondence counts these as model gaps.  *)
From Coq Require Import String Ascii List Bool Arith.
From DL Require Import Dec.ModelName Dec.Num Dec.Syntax Dec.Layout.
Import ListNotations.
Open Scope string_scope.

Section Parser.
  Variable kind : bkind.
  Variable alts : list string.          (* the alternatives of the compiled MODEL_NAME terminal, in order *)

  Inductive wclass := WModel | WSplit | WPlain.
  Definition mclass (w : string) : wclass :=
    match match_alts kind None alts (w ++ " ") with
    | Some n => if Nat.eqb n (String.length w) then WModel else WSplit
    | None => WPlain
    end.

  Definition starts_num (w : string) : bool :=
    let '(_, s1) := read_sign w in
    match s1 with
    | String c r => is_digit c || (is_c c "." && match r with String d _ => is_digit d | _ => false end)
    | _ => false
    end.
  Inductive nclass := NNum | NSplit | NWord.
  Definition numclass (w : string) : nclass := if is_num w then NNum else if starts_num w then NSplit else NWord.
  Fixpoint all_digits (s : string) : bool := match s with String c r => is_digit c && all_digits r | EmptyString => true end.
  Definition is_int (w : string) : bool := match w with EmptyString => false | _ => all_digits w end.

  Definition param_of (w : string) : option param :=
    match numclass w with NNum => Some (PLit w) | NSplit => None | NWord => Some (PLabel w) end.

  Inductive mctx := XLine (m : string) (lines : list dline) (bf : string) (fs : list string) (ph : bool) | XAlias (n : string).

  Inductive ctl :=
  | KTop
  | KArgs (kw : string) (args : list item)       (* a one-line statement: its items so far, reversed *)
  | KNeedNl
  | KDHead0
  | KDHead1 (m : string)
  | KDTop (m : string) (lines : list dline)
  | KFs (m : string) (lines : list dline) (bf : string) (fs : list string)
  | KModel (x : mctx)
  | KLabelSemi (x : mctx) (l : string)
  | KName (x : mctx) (n : string)
  | KOpts (x : mctx) (n : string) (ps : list param)
  | KSemi (x : mctx) (md : dmodel)
  | KAlias0
  | KEnd0
  | KEnd1.

  Definition line_keywords : list string :=
    ["Define"; "Alias"; "ChargeConj"; "CDecay"; "CopyDecay"; "Particle"; "PythiaAliasParam"; "PythiaBothParam"; "PythiaGenericParam";
     "JetSetPar"; "LSFLAT"; "LSNONRELBW"; "LSMANYDELTAFUNC"; "BlattWeisskopf"; "ChangeMassMin"; "ChangeMassMax";
     "IncludeBirthFactor"; "IncludeDecayFactor"; "SetLineshapePW"; "yesPhotos"; "noPhotos"].
  Definition mem (w : string) (l : list string) : bool := existsb (String.eqb w) l.

  Definition mk_stmt (kw : string) (args : list item) : option stmt :=
    match args with
    | [] => if kw =? "yesPhotos" then Some (SPhotos true) else if kw =? "noPhotos" then Some (SPhotos false) else None
    | [IWord a] =>
        if kw =? "CDecay" then Some (SCDecay a)
        else if mem kw ["LSFLAT"; "LSNONRELBW"; "LSMANYDELTAFUNC"] then Some (SLS kw a) else None
    | [IWord a; IWord b] =>
        if kw =? "Define" then (if is_num b then Some (SDefine a b) else None)
        else if kw =? "Alias" then Some (SAlias a b)
        else if kw =? "ChargeConj" then Some (SChargeConj a b)
        else if kw =? "CopyDecay" then Some (SCopyDecay a b)
        else if kw =? "Particle" then (if is_num b then Some (SParticle a b None) else None)
        else if kw =? "BlattWeisskopf" then (if is_num b then Some (SBW a b) else None)
        else if mem kw ["ChangeMassMin"; "ChangeMassMax"] then (if is_num b then Some (SChangeMass kw a b) else None)
        else if mem kw ["IncludeBirthFactor"; "IncludeDecayFactor"] then (if mem b ["yes"; "no"] then Some (SIncFactor kw a b) else None)
        else None
    | [IWord a; IWord b; IWord c] =>
        if kw =? "Particle" then (if is_num b && is_num c then Some (SParticle a b (Some c)) else None) else None
    | [IWord a; IEq; IWord b] =>
        if kw =? "JetSetPar" then (if is_num b then Some (SJetSet a b) else None) else None
    | [IWord a; IWord b; IWord c; IWord d] =>
        if kw =? "SetLineshapePW" then (if is_int d then Some (SLSPW a b c d) else None) else None
    | [IWord a; IColon; IWord b; IEq; IWord c] =>
        if mem kw ["PythiaAliasParam"; "PythiaBothParam"; "PythiaGenericParam"] then
          match numclass c with NSplit => None | _ => Some (SPythia kw a b c) end
        else None
    | _ => None
    end.

  Definition st := (list stmt * ctl)%type.       (* statements so far (reversed), control *)

  (* the model word w has been read in context x *)
  Definition model_word (acc : list stmt) (x : mctx) (w : string) : option st :=
    match mclass w with
    | WModel => Some (acc, KName x w)
    | WSplit => None
    | WPlain => Some (acc, KLabelSemi x w)
    end.

  Definition finish (acc : list stmt) (x : mctx) (md : dmodel) : st :=
    match x with
    | XLine m lines bf fs ph => (acc, KDTop m (lines ++ [{| d_bf := bf; d_fs := fs; d_photos := ph; d_model := md |}]))
    | XAlias n => (SModelAlias n md :: acc, KTop)
    end.

  Definition step (s : st) (i : item) : option st :=
    let '(acc, k) := s in
    match k, i with
    | KTop, INl => Some (acc, KTop)
    | KTop, IWord w =>
        if w =? "Decay" then Some (acc, KDHead0)
        else if w =? "ModelAlias" then Some (acc, KAlias0)
        else if w =? "End" then Some (acc, KEnd0)
        else if mem w line_keywords then Some (acc, KArgs w [])
        else None
    | KArgs kw args, INl => match mk_stmt kw (rev args) with Some s => Some (s :: acc, KTop) | None => None end
    | KArgs kw args, IBad => None
    | KArgs kw args, ISemi => None
    | KArgs kw args, IComma => None
    | KArgs kw args, i => Some (acc, KArgs kw (i :: args))
    | KNeedNl, INl => Some (acc, KTop)
    | KDHead0, IWord m => Some (acc, KDHead1 m)
    | KDHead1 m, INl => Some (acc, KDTop m [])
    | KDTop m lines, INl => Some (acc, KDTop m lines)
    | KDTop m lines, IWord w =>
        if w =? "Enddecay" then Some (SDecay m lines :: acc, KNeedNl)
        else if is_num w then Some (acc, KFs m lines w [])
        else None
    | KFs m lines bf fs, IWord w =>
        match mclass w with
        | WModel => Some (acc, KName (XLine m lines bf fs false) w)
        | WSplit => None
        | WPlain => if w =? "PHOTOS" then Some (acc, KModel (XLine m lines bf fs true)) else Some (acc, KFs m lines bf (fs ++ [w]))
        end
    | KFs m lines bf fs, ISemi =>
        match rev fs with
        | l :: rfs => Some (acc, KSemi (XLine m lines bf (rev rfs) false) (MLabel l))
        | [] => None
        end
    | KModel x, IWord w => model_word acc x w
    | KLabelSemi x l, ISemi => Some (acc, KSemi x (MLabel l))
    | KName x n, ISemi => Some (acc, KSemi x (MName n None))
    | KName x n, INl => Some (acc, KOpts x n [])
    | KName x n, IComma => Some (acc, KOpts x n [])
    | KName x n, IWord w => match param_of w with Some p => Some (acc, KOpts x n [p]) | None => None end
    | KOpts x n ps, INl => Some (acc, KOpts x n ps)
    | KOpts x n ps, IComma => Some (acc, KOpts x n ps)
    | KOpts x n ps, IWord w => match param_of w with Some p => Some (acc, KOpts x n (ps ++ [p])) | None => None end
    | KOpts x n ps, ISemi => Some (acc, KSemi x (MName n (Some ps)))
    | KSemi x md, ISemi => Some (acc, KSemi x md)
    | KSemi x md, INl => Some (finish acc x md)
    | KAlias0, IWord n => Some (acc, KModel (XAlias n))
    | KEnd0, INl => Some (acc, KEnd1)
    | KEnd1, INl => Some (acc, KEnd1)
    | _, _ => None
    end.

  Fixpoint run (its : list item) (s : st) : option st :=
    match its with
    | [] => Some s
    | i :: r => match step s i with Some s' => run r s' | None => None end
    end.

  Definition parse_items (its : list item) : option (list stmt) :=
    match run its ([], KTop) with
    | Some (acc, KTop) => Some (rev acc)
    | Some (acc, KEnd1) => Some (rev acc)
    | _ => None
    end.
End Parser.
