(* ConjTableProofs.v — CDecay: the cached, order-dependent visitor computes the specification
   conjugation (property C03). *)
From Coq Require Import String Ascii List Bool ZArith QArith Arith Lia.
From DL Require Import Lib.Val Lib.PyDict Lib.Sort Decay.Conj Decay.ConjProofs Decay.ChainDict Dec.Num Dec.Tables
  Dec.Syntax Dec.Post.
Import ListNotations.
Close Scope Q_scope.
Open Scope string_scope.
Open Scope list_scope.

Lemma rev_lookup_some v d k : rev_lookup v d = Some k -> In (k, v) d.
Proof.
  induction d as [|[k' v'] r IH]; simpl; [discriminate|]. destruct (String.eqb v v') eqn:E.
  - intros H. inversion H; subst. apply String.eqb_eq in E. subst. left. reflexivity.
  - intros H. right. auto.
Qed.

Lemma rev_lookup_none v d : rev_lookup v d = None -> forall k, ~ In (k, v) d.
Proof.
  induction d as [|[k' v'] r IH]; simpl; intros H k; [tauto|]. destruct (String.eqb v v') eqn:E; [discriminate|].
  intros [Hin|Hin]; [inversion Hin; subst; rewrite String.eqb_refl in E; discriminate | eapply IH; eauto].
Qed.

Lemma in_keys {V} k (v : V) d : In (k, v) d -> In k (pd_keys d).
Proof. intros H. change k with (fst (k, v)). apply in_map. assumption. Qed.

Lemma in_pd_set {V} q (c : V) d k v : NoDup (pd_keys d) ->
  In (k, v) (pd_set q c d) -> (k = q /\ v = c) \/ (k <> q /\ In (k, v) d).
Proof.
  induction d as [|[k' v'] r IH]; simpl; intros Hnd.
  - intros [H|[]]. inversion H. auto.
  - inversion Hnd as [|? ? Hni Hnd']; subst. destruct (String.eqb q k') eqn:E.
    + apply String.eqb_eq in E. subst k'. intros [H|H]; [inversion H; auto|].
      right. split; [|right; assumption]. intros ->. apply Hni. eapply in_keys. eassumption.
    + intros [H|H].
      * inversion H; subst. right. split; [intros ->; rewrite String.eqb_refl in E; discriminate | left; reflexivity].
      * destruct (IH Hnd' H) as [A|[A B]]; [left; assumption | right; split; [assumption | right; assumption]].
Qed.

Lemma pd_set_in_same {V} q (c : V) d : In (q, c) (pd_set q c d).
Proof.
  induction d as [|[k' v'] r IH]; simpl; [left; reflexivity|].
  destruct (String.eqb q k'); [left; reflexivity | right; assumption].
Qed.

Lemma pd_set_in_other {V} q (c : V) d k v : k <> q -> In (k, v) d -> In (k, v) (pd_set q c d).
Proof.
  intros Hne. induction d as [|[k' v'] r IH]; simpl; [tauto|].
  destruct (String.eqb q k') eqn:E.
  - apply String.eqb_eq in E. subst. intros [H|H]; [inversion H; congruence | right; assumption].
  - intros [H|H]; [left; assumption | right; auto].
Qed.

Lemma NoDup_app_remove_r {A} (l l' : list A) : NoDup (l ++ l') -> NoDup l.
Proof. induction l as [|a l IH]; simpl; intros H; [constructor|]. inversion H; subst. constructor; [rewrite in_app_iff in *; tauto | auto]. Qed.
Lemma NoDup_app_remove_l {A} (l l' : list A) : NoDup (l ++ l') -> NoDup l'.
Proof. induction l as [|a l IH]; simpl; intros H; [assumption|]. inversion H; subst. auto. Qed.
Lemma NoDup_app_disjoint_ {A} (l l' : list A) : NoDup (l ++ l') -> forall x, In x l -> In x l' -> False.
Proof.
  induction l as [|a l IH]; simpl; intros H x H1 H2; [assumption|]. inversion H as [|? ? Hni Hnd]; subst.
  destruct H1 as [->|H1]; [apply Hni; apply in_or_app; right; assumption | eapply IH; eauto].
Qed.

Lemma vals_inj_gen (d : pdict string) k k' v : NoDup (map snd d) -> In (k, v) d -> In (k', v) d -> k = k'.
Proof.
  induction d as [|[a b] r IH]; simpl; intros N H1 H2; [contradiction|].
  destruct H1 as [H1|H1], H2 as [H2|H2]; try (inversion H1; inversion H2; subst; congruence).
  - inversion H1; subst. inversion N as [|? ? Hni ?]; subst. exfalso. apply Hni. change v with (snd (k', v)). apply in_map. assumption.
  - inversion H2; subst. inversion N as [|? ? Hni ?]; subst. exfalso. apply Hni. change v with (snd (k, v)). apply in_map. assumption.
  - inversion N; subst. eapply IH; eauto.
Qed.

Section Conj.
Variable ccdb : string -> string.
Variable known : list string.                (* the names the particle database knows *)
Variable d0 : pdict string.                  (* the ChargeConj statements of the file *)

(* the database conjugates a name to a wrapped "unknown" marker or to a known name, involutively *)
Hypothesis db_dich : forall n, ccdb n = wrap n \/ (In (ccdb n) known /\ ccdb (ccdb n) = n).
Hypothesis known_not_wrap : forall n, In n known -> is_wrap n = false.
(* ChargeConj pairs: every name occurs once overall, is unknown to the database and is not a marker *)
Hypothesis d0_nodup : NoDup (map fst d0 ++ map snd d0).
Hypothesis d0_unknown : forall n, In n (map fst d0 ++ map snd d0) -> ~ In n known /\ is_wrap n = false.

(* the specification conjugation: ChargeConj read both ways, else the database *)
Definition cj (p : string) : string := cc_match ccdb d0 p.

Lemma d0_keys_nodup : NoDup (pd_keys d0).
Proof. unfold pd_keys. eapply NoDup_app_remove_r. exact d0_nodup. Qed.

Lemma d0_vals_nodup : NoDup (map snd d0).
Proof. eapply NoDup_app_remove_l. exact d0_nodup. Qed.

Lemma d0_key_not_val k v k' : In (k, v) d0 -> ~ In (k', k) d0.
Proof.
  intros H1 H2. apply (NoDup_app_disjoint_ _ _ d0_nodup k);
    [change k with (fst (k, v)); apply in_map; assumption |
     change k with (snd (k', k)); apply in_map; assumption].
Qed.

Lemma cj_key k v : In (k, v) d0 -> cj k = v.
Proof.
  intros H. unfold cj, cc_match. destruct d0 as [|e r] eqn:E; [destruct H|]. rewrite <- E in *.
  rewrite (pd_get_in_nodup k v d0 d0_keys_nodup H). reflexivity.
Qed.

Lemma vals_inj k k' v : In (k, v) d0 -> In (k', v) d0 -> k = k'.
Proof. apply vals_inj_gen. apply d0_vals_nodup. Qed.

Lemma cj_val k v : In (k, v) d0 -> cj v = k.
Proof.
  intros H. unfold cj, cc_match. destruct d0 as [|e r] eqn:E; [destruct H|]. rewrite <- E in *.
  destruct (pd_get v d0) as [m|] eqn:G.
  - exfalso. apply pd_get_some_in in G. eapply d0_key_not_val; eassumption.
  - destruct (rev_lookup v d0) as [k'|] eqn:R.
    + apply rev_lookup_some in R. eapply vals_inj; eassumption.
    + exfalso. eapply rev_lookup_none; eassumption.
Qed.

Lemma cj_other p : ~ In p (map fst d0 ++ map snd d0) -> cj p = ccdb p.
Proof.
  intros H. unfold cj, cc_match. destruct d0 as [|e r] eqn:E; [reflexivity|]. rewrite <- E in *.
  destruct (pd_get p d0) as [m|] eqn:G.
  - exfalso. apply H. apply in_or_app. left. apply pd_get_some_in in G. eapply in_keys. eassumption.
  - destruct (rev_lookup p d0) as [k'|] eqn:R; [|reflexivity].
    exfalso. apply H. apply in_or_app. right. apply rev_lookup_some in R.
    change p with (snd (k', p)). apply in_map. assumption.
Qed.

Lemma in_names_cases p : In p (map fst d0 ++ map snd d0) ->
  (exists v, In (p, v) d0) \/ (exists k, In (k, p) d0).
Proof.
  intros H. apply in_app_or in H. destruct H as [H|H]; apply in_map_iff in H; destruct H as [[a b] [E Hin]]; simpl in E; subst; eauto.
Qed.

Definition names_dec p : {In p (map fst d0 ++ map snd d0)} + {~ In p (map fst d0 ++ map snd d0)}.
Proof. apply in_dec. apply string_dec. Defined.

(* conjugating twice gives back the name, whenever the conjugate is not an "unknown" marker *)
Lemma cj_involutive p : is_wrap (cj p) = false -> cj (cj p) = p.
Proof.
  intros Hw. destruct (names_dec p) as [Hin|Hni].
  - destruct (in_names_cases p Hin) as [[v Hv]|[k Hk]].
    + rewrite (cj_key _ _ Hv). apply (cj_val _ _ Hv).
    + rewrite (cj_val _ _ Hk). apply (cj_key _ _ Hk).
  - rewrite (cj_other p Hni) in *. destruct (db_dich p) as [E|[Hk Hinv]].
    + rewrite E in Hw. rewrite is_wrap_wrap in Hw. discriminate.
    + rewrite cj_other; [assumption|]. intros Hin. apply d0_unknown in Hin. tauto.
Qed.

(* ------------------------------------------------------------------ the cache invariant *)
Definition Inv (d : pdict string) : Prop :=
  (forall k v, In (k, v) d -> v = cj k) /\ (forall k v, In (k, v) d0 -> In (k, v) d) /\
  NoDup (pd_keys d) /\ (d = [] -> d0 = []).

Lemma Inv_d0 : Inv d0.
Proof.
  split; [|split; [auto | split; [apply d0_keys_nodup | auto]]].
  intros k v H. symmetry. apply cj_key. assumption.
Qed.

Lemma Inv_nil : d0 = [] -> Inv [].
Proof. intros E. split; [intros k v []|]. split; [rewrite E; intros k v []|]. split; [constructor | auto]. Qed.

Lemma cc_match_inv d q : Inv d -> is_wrap q = false -> cc_match ccdb d q = cj q.
Proof.
  intros [E [Sub [Nd Em]]] Hq. unfold cc_match. destruct d as [|e r] eqn:Ed.
  - rewrite (Em eq_refl) in *. unfold cj, cc_match. rewrite (Em eq_refl). reflexivity.
  - rewrite <- Ed in *. destruct (pd_get q d) as [m|] eqn:G.
    + apply pd_get_some_in in G. apply E. assumption.
    + destruct (rev_lookup q d) as [k|] eqn:R.
      * apply rev_lookup_some in R. pose proof (E _ _ R) as Eq. subst q. symmetry. apply cj_involutive. assumption.
      * symmetry. apply cj_other. intros Hin. destruct (in_names_cases q Hin) as [[v Hv]|[k Hk]].
        -- apply Sub in Hv. rewrite (pd_get_in_nodup q v d Nd Hv) in G. discriminate.
        -- apply Sub in Hk. eapply rev_lookup_none; eassumption.
Qed.

Lemma Inv_set d q : Inv d -> Inv (pd_set q (cj q) d).
Proof.
  intros [E [Sub [Nd Em]]]. split; [|split; [|split]].
  - intros k v H. apply in_pd_set in H; [|assumption]. destruct H as [[-> ->]|[_ H]]; [reflexivity | auto].
  - intros k v H. destruct (string_dec k q) as [->|Hne].
    + rewrite (cj_key _ _ H). apply pd_set_in_same.
    + apply pd_set_in_other; auto.
  - apply pd_set_nodup. assumption.
  - intros H. destruct d; simpl in H; [discriminate|]. destruct p. destruct (String.eqb q s); discriminate.
Qed.

Definition nonwrap (l : list string) : Prop := Forall (fun p => is_wrap p = false) l.

Lemma visit_names_spec ps : forall d out, Inv d -> nonwrap ps ->
  exists d', fold_left (visit_particle ccdb) ps (d, out) = (d', out ++ map cj ps) /\ Inv d'.
Proof.
  induction ps as [|p ps IH]; intros d out Hd Hn; simpl.
  - exists d. rewrite app_nil_r. auto.
  - inversion Hn; subst. rewrite (cc_match_inv d p Hd) by assumption.
    destruct (IH (pd_set p (cj p) d) (out ++ [cj p]) (Inv_set d p Hd)) as [d' [E I]]; [assumption|].
    exists d'. rewrite E. rewrite <- app_assoc. auto.
Qed.

Definition cline (l : line) : line :=
  {| l_bf := l_bf l; l_fs := map cj (l_fs l); l_photos := l_photos l; l_model := l_model l; l_params := l_params l |}.

Definition table_labels (t : table) : list string := fst t :: flat_map l_fs (snd t).

Definition cstep (acc : pdict string * list line) (l : line) : pdict string * list line :=
  let '(d0', out) := acc in
  let '(d1, fs') := visit_names ccdb d0' (l_fs l) in
  (d1, out ++ [{| l_bf := l_bf l; l_fs := fs'; l_photos := l_photos l; l_model := l_model l; l_params := l_params l |}]).

Lemma cstep_fold lines : forall d1 out, Inv d1 -> nonwrap (flat_map l_fs lines) ->
  exists d', fold_left cstep lines (d1, out) = (d', out ++ map cline lines) /\ Inv d'.
Proof.
  induction lines as [|l lines IH]; intros d1 out Hd Hn.
  - simpl. exists d1. rewrite app_nil_r. auto.
  - cbn [fold_left]. unfold nonwrap in Hn. simpl in Hn. apply Forall_app in Hn. destruct Hn as [H1 H2].
    destruct (visit_names_spec (l_fs l) d1 [] Hd H1) as [d2 [E1 I1]].
    assert (Es : cstep (d1, out) l = (d2, out ++ [cline l])).
    { unfold cstep, visit_names. rewrite E1. reflexivity. }
    rewrite Es. destruct (IH d2 (out ++ [cline l]) I1 H2) as [d' [E I]]. exists d'. rewrite E.
    rewrite <- app_assoc. auto.
Qed.

(* conjugating one table: same lines in the same order, every daughter (and the mother) replaced by its
   conjugate, branching fraction / PHOTOS / model / parameters untouched *)
Theorem conj_table_spec d t : Inv d -> nonwrap (table_labels t) ->
  exists d', conj_table ccdb d t = (d', (cj (fst t), map cline (snd t))) /\ Inv d'.
Proof.
  destruct t as [m ls]. intros Hd Hn. unfold table_labels in Hn. simpl in Hn. inversion Hn as [|? ? Hm Hl]; subst.
  unfold conj_table. fold cstep.
  destruct (cstep_fold ls d [] Hd Hl) as [d1 [E1 I1]]. rewrite E1.
  destruct (visit_names_spec [m] d1 [] I1) as [d2 [E2 I2]]; [constructor; [assumption | constructor]|].
  unfold visit_names. rewrite E2. simpl. exists d2. auto.
Qed.

(* ------------------------------------------------------------------ the CDecay pass as a whole *)
Lemma cstep_t_fold selfconj src : forall d out, Inv d ->
  Forall (fun t => nonwrap (table_labels t) /\ selfconj (fst t) <> Some true) src ->
  exists d', fold_left (cstep_t ccdb selfconj) src (d, out) = (d', out ++ map (fun t => (cj (fst t), map cline (snd t))) src) /\ Inv d'.
Proof.
  induction src as [|t src IH]; intros d out Hd Hs.
  - simpl. exists d. rewrite app_nil_r. auto.
  - inversion Hs as [|? ? [Hn Hsc] Hrest]; subst. cbn [fold_left].
    assert (exists d1, cstep_t ccdb selfconj (d, out) t = (d1, out ++ [(cj (fst t), map cline (snd t))]) /\ Inv d1) as [d1 [E1 I1]].
    { unfold cstep_t. destruct (selfconj (fst t)) as [[|]|]; try congruence.
      - destruct d as [|e r] eqn:Ed.
        + destruct (conj_table_spec [] t Hd Hn) as [d' [E I]]. rewrite E. exists []. auto.
        + rewrite <- Ed in *. destruct (conj_table_spec d t Hd Hn) as [d' [E I]]. rewrite E. exists d'. auto.
      - destruct d as [|e r] eqn:Ed.
        + destruct (conj_table_spec [] t Hd Hn) as [d' [E I]]. rewrite E. exists []. auto.
        + rewrite <- Ed in *. destruct (conj_table_spec d t Hd Hn) as [d' [E I]]. rewrite E. exists d'. auto. }
    rewrite E1. destruct (IH d1 (out ++ [(cj (fst t), map cline (snd t))]) I1 Hrest) as [d' [E I]].
    exists d'. rewrite E. rewrite <- app_assoc. auto.
Qed.

(* the tables after the CDecay pass: the existing ones untouched, followed by, for every CDecay X that has
   no Decay table of its own and whose conjugate has one, the line-by-line conjugate of that table *)
Theorem add_cc_spec selfconj cdecays T :
  Forall (fun t => nonwrap (table_labels t) /\ selfconj (fst t) <> Some true) (cc_sources ccdb d0 cdecays T) ->
  add_cc ccdb selfconj cdecays d0 T =
  T ++ map (fun t => (cj (fst t), map cline (snd t))) (cc_sources ccdb d0 cdecays T).
Proof.
  intros H. unfold add_cc.
  destruct (cc_names cdecays T) eqn:E.
  - unfold cc_sources. rewrite E. simpl. rewrite app_nil_r. reflexivity.
  - destruct (cstep_t_fold selfconj _ d0 [] Inv_d0 H) as [d' [Ef _]]. rewrite Ef. reflexivity.
Qed.

End Conj.

(* a Decay block for X takes precedence over CDecay X *)
Lemma count_remove_one d l x :
  count_occ string_dec (remove_one d l) x =
  if string_dec d x then Nat.pred (count_occ string_dec l x) else count_occ string_dec l x.
Proof.
  induction l as [|y r IH]; simpl; [destruct (string_dec d x); reflexivity|].
  destruct (String.eqb d y) eqn:E.
  - apply String.eqb_eq in E. subst y. destruct (string_dec d x); [reflexivity | reflexivity].
  - assert (d <> y) by (intros ->; rewrite String.eqb_refl in E; discriminate). simpl. rewrite IH.
    destruct (string_dec y x); destruct (string_dec d x); try congruence; reflexivity.
Qed.

Lemma count_fold_remove dups : forall l x,
  count_occ string_dec (fold_left (fun l d => remove_one d l) dups l) x =
  count_occ string_dec l x - count_occ string_dec dups x.
Proof.
  induction dups as [|d dups IH]; intros l x; simpl; [lia|].
  rewrite IH, count_remove_one. destruct (string_dec d x); lia.
Qed.

Theorem decay_takes_precedence cdecays T X : In X (map fst T) -> ~ In X (cc_names cdecays T).
Proof.
  intros Hm Hin. apply (count_occ_In string_dec) in Hin. unfold cc_names in Hin.
  rewrite count_fold_remove in Hin.
  assert (E : count_occ string_dec (filter (fun n => smem n (map fst T)) cdecays) X = count_occ string_dec cdecays X).
  { clear Hin. induction cdecays as [|y r IH]; simpl; [reflexivity|].
    destruct (string_dec y X) as [->|Hne].
    - assert (smem X (map fst T) = true) as -> by (apply smem_in; assumption). simpl.
      destruct (string_dec X X); [|congruence]. rewrite IH. reflexivity.
    - destruct (smem y (map fst T)); simpl; [destruct (string_dec y X); [congruence|]|]; apply IH. }
  lia.
Qed.

Theorem other_cdecays_kept cdecays T X : ~ In X (map fst T) ->
  count_occ string_dec (cc_names cdecays T) X = count_occ string_dec cdecays X.
Proof.
  intros Hm. unfold cc_names. rewrite count_fold_remove.
  assert (E : count_occ string_dec (filter (fun n => smem n (map fst T)) cdecays) X = 0).
  { apply count_occ_not_In. intros H. apply filter_In in H. destruct H as [_ H]. apply smem_in in H. contradiction. }
  lia.
Qed.

