(* Fl64Proofs.v — rnd64 returns the binary64 nearest to a/b: a 53-bit significand m and an exponent in the normal range, with
   a/b scaled to [2^52, 2^53) rounded to the nearest integer, ties to even (carry into a 54th bit handled). *)
From Coq Require Import String Ascii List Bool ZArith QArith Arith Lia.
From DL Require Import Dec.Num Dec.Fmt7 Dec.Fmt7Proofs Dec.Print Dec.Fl64.
Import ListNotations.
Close Scope Q_scope.
Local Open Scope Z_scope.

Lemma pow2_pos e : 0 <= e -> 0 < 2 ^ e.
Proof. intros. apply Z.pow_pos_nonneg; lia. Qed.

(* the comparison with a power of two, cleared of the case distinction on the sign of the exponent *)
Lemma q_ge_pow2_scaled a b e K : 0 < b -> 0 <= K -> 0 <= e + K ->
  q_ge_pow2 a b e = (2 ^ (e + K) * b <=? a * 2 ^ K).
Proof.
  intros Hb HK HeK. unfold q_ge_pow2. pose proof (pow2_pos K HK) as PK.
  destruct (0 <=? e) eqn:E0.
  - apply Z.leb_le in E0. rewrite Z.pow_add_r by lia. pose proof (pow2_pos e E0) as Pe.
    destruct (Z.leb_spec (2 ^ e * b) a) as [H|H]; symmetry; [apply Z.leb_le | apply Z.leb_gt]; nia.
  - apply Z.leb_gt in E0. pose proof (pow2_pos (e + K) HeK) as PeK. pose proof (pow2_pos (- e) ltac:(lia)) as Pne.
    assert (EK : 2 ^ K = 2 ^ (e + K) * 2 ^ (- e)) by (rewrite <- Z.pow_add_r by lia; f_equal; lia).
    rewrite EK. destruct (Z.leb_spec b (a * 2 ^ (- e))) as [H|H]; symmetry; [apply Z.leb_le | apply Z.leb_gt]; nia.
Qed.

Lemma ilog2_spec a b : 0 < a -> 0 < b -> q_ge_pow2 a b (ilog2 a b) = true /\ q_ge_pow2 a b (ilog2 a b + 1) = false.
Proof.
  intros Ha Hb. unfold ilog2. set (la := Z.log2 a). set (lb := Z.log2 b).
  destruct (Z.log2_spec a Ha) as [A1 A2]. destruct (Z.log2_spec b Hb) as [B1 B2]. fold la in A1, A2. fold lb in B1, B2.
  assert (Hla : 0 <= la) by apply Z.log2_nonneg. assert (Hlb : 0 <= lb) by apply Z.log2_nonneg.
  pose proof (pow2_pos la Hla) as Pla. pose proof (pow2_pos lb Hlb) as Plb.
  pose proof (pow2_pos (Z.succ la) ltac:(lia)) as Psla. pose proof (pow2_pos (Z.succ lb) ltac:(lia)) as Pslb.
  assert (Hup : q_ge_pow2 a b (la - lb + 1) = false).
  { rewrite (q_ge_pow2_scaled a b (la - lb + 1) lb Hb Hlb ltac:(lia)). apply Z.leb_gt.
    replace (la - lb + 1 + lb) with (Z.succ la) by lia.
    apply Z.lt_le_trans with (2 ^ Z.succ la * 2 ^ lb).
    { apply Z.mul_lt_mono_pos_r; lia. }
    apply Z.mul_le_mono_nonneg_l; lia. }
  assert (Hdn : q_ge_pow2 a b (la - lb - 1) = true).
  { rewrite (q_ge_pow2_scaled a b (la - lb - 1) (Z.succ lb) Hb ltac:(lia) ltac:(lia)). apply Z.leb_le.
    replace (la - lb - 1 + Z.succ lb) with la by lia.
    apply Z.le_trans with (2 ^ la * 2 ^ Z.succ lb); [apply Z.mul_le_mono_nonneg_l; lia | apply Z.mul_le_mono_nonneg_r; lia]. }
  destruct (q_ge_pow2 a b (la - lb)) eqn:E.
  - split; [exact E | exact Hup].
  - split; [exact Hdn|]. replace (la - lb - 1 + 1) with (la - lb) by lia. exact E.
Qed.

(* the scaled fraction lies in [2^52, 2^53) *)
Lemma scaled2_bounds a b e p q : 0 < a -> 0 < b -> q_ge_pow2 a b e = true -> q_ge_pow2 a b (e + 1) = false ->
  scaled2 a b e = (p, q) -> 0 < q /\ 0 <= p /\ 2 ^ 52 * q <= p /\ p < 2 ^ 53 * q.
Proof.
  intros Ha Hb Hlo Hhi Hs. unfold scaled2 in Hs.
  destruct (0 <=? 52 - e) eqn:E6.
  - apply Z.leb_le in E6. pose proof (pow2_pos (52 - e) E6) as P6.
    rewrite (q_ge_pow2_scaled a b e (52 - e) Hb E6 ltac:(lia)) in Hlo.
    rewrite (q_ge_pow2_scaled a b (e + 1) (52 - e) Hb E6 ltac:(lia)) in Hhi.
    replace (e + (52 - e)) with 52 in Hlo by lia. replace (e + 1 + (52 - e)) with 53 in Hhi by lia.
    remember (2 ^ (52 - e)) as X eqn:EX. remember (2 ^ 52) as A eqn:EA. remember (2 ^ 53) as B eqn:EB.
    destruct (Z.leb_spec (A * b) (a * X)) as [L|L]; [|discriminate].
    destruct (Z.leb_spec (B * b) (a * X)) as [U|U]; [discriminate|].
    injection Hs as Ep Eq. subst p q. split; [lia|]. split; [apply Z.mul_nonneg_nonneg; lia|]. split; lia.
  - apply Z.leb_gt in E6. pose proof (pow2_pos (e - 52) ltac:(lia)) as P6. injection Hs as <- <-.
    unfold q_ge_pow2 in Hlo, Hhi.
    replace (0 <=? e) with true in Hlo by (symmetry; apply Z.leb_le; lia). apply Z.leb_le in Hlo.
    replace (0 <=? e + 1) with true in Hhi by (symmetry; apply Z.leb_le; lia). apply Z.leb_gt in Hhi.
    assert (He : 2 ^ e = 2 ^ 52 * 2 ^ (e - 52)) by (rewrite <- Z.pow_add_r by lia; f_equal; lia).
    assert (He1 : 2 ^ (e + 1) = 2 ^ 53 * 2 ^ (e - 52)) by (rewrite <- Z.pow_add_r by lia; f_equal; lia).
    remember (2 ^ (e - 52)) as X. split; [apply Z.mul_pos_pos; lia|]. split; [lia|]. split.
    + replace (2 ^ 52 * (b * X)) with ((2 ^ 52 * X) * b) by ring. rewrite <- He. exact Hlo.
    + replace (2 ^ 53 * (b * X)) with ((2 ^ 53 * X) * b) by ring. rewrite <- He1. exact Hhi.
Qed.

(* rnd64: 53 significant bits, exponent in the normal range, nearest (ties to even).  Stated on the scaled fraction
   p/q = (a/b) * 2^(52-e0): m (times 2 if the rounding carried into a 54th bit) is p/q rounded to the nearest integer,
   and the value returned is m * 2^k with k = e0 - 52 (+1 after a carry) *)
Theorem rnd64_spec a b m k : 0 < a -> 0 < b -> rnd64 a b = Some (m, k) ->
  2 ^ 52 <= m < 2 ^ 53 /\ -1074 <= k <= 971 /\
  exists e0 p q c, scaled2 a b e0 = (p, q) /\ 0 < q /\ 2 ^ 52 * q <= p < 2 ^ 53 * q /\
                   (c = 1 \/ c = 2) /\ k = e0 - 52 + (if c =? 1 then 0 else 1) /\ 2 * Z.abs (p - q * (m * c)) <= q.
Proof.
  intros Ha Hb H. unfold rnd64 in H. set (e0 := ilog2 a b) in *.
  destruct (ilog2_spec a b Ha Hb) as [Hlo Hhi]. fold e0 in Hlo, Hhi.
  destruct (scaled2 a b e0) as [p q] eqn:Es.
  destruct (scaled2_bounds a b e0 p q Ha Hb Hlo Hhi Es) as (Hq & Hp & B1 & B2).
  pose proof (round_he_spec p q Hq Hp) as Hr.
  pose proof (round_he_mono_bounds p q (2 ^ 52) (2 ^ 53) Hq Hp ltac:(lia) ltac:(lia)) as Hb'.
  destruct (round_he p q =? 2 ^ 53) eqn:E7.
  - apply Z.eqb_eq in E7.
    destruct ((-1022 <=? e0 + 1) && (e0 + 1 <=? 1023)) eqn:Er; [|discriminate]. apply andb_true_iff in Er. destruct Er as [R1 R2].
    apply Z.leb_le in R1. apply Z.leb_le in R2. injection H as <- <-.
    split; [change (2 ^ 53) with (2 * 2 ^ 52); lia|]. split; [lia|].
    exists e0, p, q, 2. split; [exact Es|]. split; [exact Hq|]. split; [lia|]. split; [right; reflexivity|]. split; [cbn; lia|].
    rewrite E7 in Hr. change (2 ^ 53) with (2 ^ 52 * 2) in Hr. exact Hr.
  - apply Z.eqb_neq in E7.
    destruct ((-1022 <=? e0) && (e0 <=? 1023)) eqn:Er; [|discriminate]. apply andb_true_iff in Er. destruct Er as [R1 R2].
    apply Z.leb_le in R1. apply Z.leb_le in R2. injection H as <- <-.
    split; [lia|]. split; [lia|].
    exists e0, p, q, 1. split; [exact Es|]. split; [exact Hq|]. split; [lia|]. split; [left; reflexivity|]. split; [cbn; lia|].
    rewrite Z.mul_1_r. exact Hr.
Qed.

(* float(x) of an exactly representable value is that value: rounding is the identity on 53-bit integers *)
Lemma round_he_exact n q : 0 < q -> 0 <= n -> round_he (n * q) q = n.
Proof.
  intros Hq Hn. unfold round_he. rewrite Z.div_mul by lia. rewrite Z.mod_mul by lia.
  replace (2 * 0 <? q) with true by (symmetry; apply Z.ltb_lt; lia). reflexivity.
Qed.

Example fl_examples :
  fl (1 # 2)%Q = Some (1 # 2)%Q /\ fl 1%Q = Some 1%Q /\ fl 0%Q = Some 0%Q /\
  fl (1 # 10)%Q = Some (3602879701896397 # 36028797018963968)%Q /\          (* float("0.1") = 0x1.999999999999ap-4 *)
  fl (- (1 # 3))%Q = Some (- (6004799503160661 # 18014398509481984))%Q /\
  (* sum([0.1, 0.2, 0.3]) is 0.6 (compensated), while 0.1 + 0.2 + 0.3 is 0.6000000000000001 *)
  (let f q := match fl q with Some v => v | None => 0%Q end in
   fsum [f (1 # 10)%Q; f (2 # 10)%Q; f (3 # 10)%Q] = fl (6 # 10)%Q /\
   obind (fadd (f (1 # 10)%Q) (f (2 # 10)%Q)) (fun s => fadd s (f (3 # 10)%Q)) = Some (1351079888211149 # 2251799813685248)%Q).
Proof. vm_compute. repeat split. Qed.

(* relative error at most 2^-53: on the scaled fraction p/q (a/b times a power of two) and the scaled result m*c *)
Corollary rnd64_relative_error a b m k : 0 < a -> 0 < b -> rnd64 a b = Some (m, k) ->
  exists e0 p q c, scaled2 a b e0 = (p, q) /\ 0 < q /\ (c = 1 \/ c = 2) /\ k = e0 - 52 + (if c =? 1 then 0 else 1) /\
                   2 ^ 53 * Z.abs (p - q * (m * c)) <= p.
Proof.
  intros Ha Hb H. destruct (rnd64_spec a b m k Ha Hb H) as (_ & _ & e0 & p & q & c & Es & Hq & [B1 B2] & Hc & Hk & Hr).
  exists e0, p, q, c. split; [exact Es|]. split; [exact Hq|]. split; [exact Hc|]. split; [exact Hk|].
  change (2 ^ 53) with (2 ^ 52 * 2). remember (2 ^ 52) as A. remember (Z.abs (p - q * (m * c))) as D.
  assert (0 <= D) by (subst D; apply Z.abs_nonneg). nia.
Qed.
