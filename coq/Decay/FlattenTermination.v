(* FlattenTermination.v — the fix-point loop of DecayChain.flatten returns for every acyclic chain, within
   (rank of the mother) + 1 passes: after each pass the substituted particles still present lie one rank lower. *)
From Coq Require Import String List Bool ZArith QArith Arith Lia.
From DL Require Import Lib.Val Lib.PyDict Decay.Conj Decay.Flatten Decay.FlattenProofs.
Import ListNotations.
Close Scope Q_scope.
Open Scope string_scope.

Lemma dd_get_not_mem k (fs : dd) : pd_mem k fs = false -> dd_get k fs = 0.
Proof.
  intro H. unfold dd_get. rewrite pd_get_none; [reflexivity|]. intro Hin. apply pd_mem_in in Hin. congruence.
Qed.

Section Term.
Variable decays : pdict mode.
Variable keys : list string.
Hypothesis decays_wf : forall k m, pd_get k decays = Some m -> NoDup (pd_keys (m_fs m)).
Hypothesis keys_decay : forall k, In k keys -> pd_get k decays <> None.
Variable rank : string -> nat.
Hypothesis acyclic : forall k m d, In k keys -> pd_get k decays = Some m -> In d keys -> 0 < dd_get d (m_fs m) -> rank d < rank k.

(* every substituted particle still present has rank below b *)
Definition P (b : nat) (fs : dd) : Prop := forall x, In x keys -> 0 < dd_get x fs -> rank x < b.
(* ... and those of the list `done` that have rank b' are gone *)
Definition J (b' : nat) (done : list string) (fs : dd) : Prop :=
  P (S b') fs /\ forall x, In x done -> In x keys -> rank x = b' -> dd_get x fs = 0.

Lemma step_get st k m : NoDup (pd_keys (snd st)) -> pd_mem k (snd st) = true -> pd_get k decays = Some m ->
  forall x, dd_get x (snd (step_key decays st k)) =
            if String.eqb x k then dd_get k (snd st) * dd_get k (m_fs m)
            else dd_get x (snd st) + dd_get k (snd st) * dd_get x (m_fs m).
Proof.
  destruct st as [bf fs]. cbn [snd]. intros Hnd Hmem Em x. unfold step_key. rewrite Hmem, Em. cbn [snd].
  pose proof (decays_wf _ _ Em) as Hm.
  rewrite dd_get_set. rewrite !iter_iadd_get by assumption.
  destruct (String.eqb x k) eqn:E; [|reflexivity]. lia.
Qed.

Lemma step_nodup st k : NoDup (pd_keys (snd st)) -> NoDup (pd_keys (snd (step_key decays st k))).
Proof.
  destruct st as [bf fs]. cbn [snd]. intro Hnd. unfold step_key.
  destruct (pd_mem k fs); [|assumption]. destruct (pd_get k decays) as [m|]; [|assumption].
  cbn [snd]. apply pd_set_nodup. apply iter_iadd_nodup. assumption.
Qed.

Lemma step_P b st k : In k keys -> NoDup (pd_keys (snd st)) -> P b (snd st) -> P b (snd (step_key decays st k)).
Proof.
  intros Hk Hnd HP x Hx Hpos.
  destruct (pd_mem k (snd st)) eqn:Hmem.
  - destruct (pd_get k decays) as [m|] eqn:Em; [|exfalso; exact (keys_decay _ Hk Em)].
    rewrite (step_get _ _ _ Hnd Hmem Em) in Hpos.
    destruct (String.eqb x k) eqn:E.
    + apply String.eqb_eq in E. subst x.
      assert (0 < dd_get k (m_fs m)) by nia. pose proof (acyclic _ _ _ Hk Em Hk H). lia.
    + destruct (Nat.eq_dec (dd_get x (snd st)) 0) as [Z|NZ]; [|apply HP; [assumption|lia]].
      rewrite Z in Hpos. assert (0 < dd_get k (snd st)) by nia. assert (0 < dd_get x (m_fs m)) by nia.
      pose proof (acyclic _ _ _ Hk Em Hx H0). pose proof (HP k Hk H). lia.
  - destruct st as [bf fs]. unfold step_key in Hpos. cbn [snd] in *. rewrite Hmem in Hpos. apply HP; assumption.
Qed.

Lemma step_J b' done st k : In k keys -> NoDup (pd_keys (snd st)) -> J b' done (snd st) -> J b' (k :: done) (snd (step_key decays st k)).
Proof.
  intros Hk Hnd [HP HD]. split; [apply step_P; assumption|].
  intros x Hin Hx Hr.
  destruct (pd_mem k (snd st)) eqn:Hmem.
  - destruct (pd_get k decays) as [m|] eqn:Em; [|exfalso; exact (keys_decay _ Hk Em)].
    rewrite (step_get _ _ _ Hnd Hmem Em).
    destruct (String.eqb x k) eqn:E.
    + apply String.eqb_eq in E. subst x.
      destruct (Nat.eq_dec (dd_get k (m_fs m)) 0) as [Z|NZ]; [rewrite Z; lia|].
      assert (H : 0 < dd_get k (m_fs m)) by lia. pose proof (acyclic _ _ _ Hk Em Hk H). lia.
    + assert (Hne : x <> k) by (intro; subst; rewrite String.eqb_refl in E; discriminate).
      destruct Hin as [->|Hin]; [congruence|].
      rewrite (HD x Hin Hx Hr).
      destruct (Nat.eq_dec (dd_get k (snd st)) 0) as [Z|NZ]; [rewrite Z; lia|].
      destruct (Nat.eq_dec (dd_get x (m_fs m)) 0) as [Z2|NZ2]; [rewrite Z2; lia|].
      assert (H1 : 0 < dd_get x (m_fs m)) by lia. assert (H2 : 0 < dd_get k (snd st)) by lia.
      pose proof (acyclic _ _ _ Hk Em Hx H1). pose proof (HP k Hk H2). lia.
  - assert (E : snd (step_key decays st k) = snd st).
    { destruct st as [bf fs]. unfold step_key. cbn [snd] in *. rewrite Hmem. reflexivity. }
    rewrite E. destruct Hin as [->|Hin]; [apply dd_get_not_mem; assumption|apply HD; assumption].
Qed.

Lemma fold_J b' ks : forall done st, (forall k, In k ks -> In k keys) -> NoDup (pd_keys (snd st)) -> J b' done (snd st) ->
  J b' (rev ks ++ done) (snd (fold_left (step_key decays) ks st)) /\ NoDup (pd_keys (snd (fold_left (step_key decays) ks st))).
Proof.
  induction ks as [|k ks IH]; intros done st Hks Hnd HJ; [split; assumption|].
  cbn [fold_left rev]. rewrite <- app_assoc. cbn [app].
  apply IH; [intros q Hq; apply Hks; right; exact Hq|apply step_nodup; assumption|].
  apply step_J; [apply Hks; left; reflexivity|assumption|assumption].
Qed.

Lemma fold_P b ks : forall st, (forall k, In k ks -> In k keys) -> NoDup (pd_keys (snd st)) -> P b (snd st) ->
  P b (snd (fold_left (step_key decays) ks st)).
Proof.
  induction ks as [|k ks IH]; intros st Hks Hnd HP; [assumption|]. cbn [fold_left].
  apply IH; [intros q Hq; apply Hks; right; exact Hq|apply step_nodup; assumption|].
  apply step_P; [apply Hks; left; reflexivity|assumption|assumption].
Qed.

(* one pass lowers the bound *)
Lemma pass_P b' st : NoDup (pd_keys (snd st)) -> P (S b') (snd st) -> P b' (snd (fold_left (step_key decays) keys st)).
Proof.
  intros Hnd HP.
  destruct (fold_J b' keys [] st (fun k H => H) Hnd) as [[HP' HD] _]; [split; [assumption|intros x []]|].
  intros x Hx Hpos. pose proof (HP' x Hx Hpos) as Hlt.
  destruct (Nat.eq_dec (rank x) b') as [E|NE]; [|lia].
  rewrite (HD x) in Hpos; [lia| |assumption|assumption]. rewrite app_nil_r. apply in_rev. rewrite rev_involutive. assumption.
Qed.

Lemma any_positive_P0 fs : P 0 fs -> any_positive keys fs = false.
Proof.
  intro HP. unfold any_positive. destruct (existsb _ keys) eqn:E; [|reflexivity].
  apply existsb_exists in E. destruct E as [x [Hx Hp]]. apply Nat.ltb_lt in Hp. pose proof (HP x Hx Hp). lia.
Qed.

Theorem loop_returns b : forall fuel st, NoDup (pd_keys (snd st)) -> P b (snd st) -> b < fuel -> loop fuel decays keys st <> None.
Proof.
  induction b as [|b' IH]; intros fuel st Hnd HP Hf; (destruct fuel as [|f]; [lia|]); cbn [loop].
  - rewrite any_positive_P0; [discriminate|]. apply fold_P; [auto|assumption|assumption].
  - destruct (any_positive keys _); [|discriminate].
    apply IH; [apply (proj2 (fold_J b' keys [] st (fun k H => H) Hnd (conj HP (fun x (F : In x []) => match F with end))))
              |apply pass_P; assumption|lia].
Qed.
End Term.

(* the whole function: with fuel above the rank of the mother it never runs out of fuel *)
Theorem flatten_terminates c stable (rank : string -> nat) :
  (forall k m, pd_get k (c_decays c) = Some m -> NoDup (pd_keys (m_fs m))) ->
  (forall k m d, substituted c stable k -> pd_get k (c_decays c) = Some m -> substituted c stable d ->
                 0 < dd_get d (m_fs m) -> rank d < rank k) ->
  forall fuel, rank (c_mother c) < fuel -> flatten fuel c stable <> FOutOfFuel.
Proof.
  intros Hwf Hac fuel Hf. unfold flatten.
  destruct (pd_get (c_mother c) (c_decays c)) as [top|] eqn:Et; [|discriminate].
  destruct (flatten_keys c stable) as [keys|] eqn:Ek; [|discriminate].
  pose proof (flatten_keys_spec _ _ _ Ek) as Hks.
  assert (Hmk : In (c_mother c) keys).
  { unfold flatten_keys in Ek.
    set (ks := filter (fun k => negb (existsb (String.eqb k) stable)) (pd_keys (c_decays c))) in Ek.
    destruct (existsb (String.eqb (c_mother c)) ks); [|discriminate]. injection Ek as <-. left. reflexivity. }
  assert (Hl : loop fuel (c_decays c) keys (m_bf top, dd_of_map (m_fs top)) <> None).
  { apply (loop_returns (c_decays c) keys Hwf) with (rank := rank) (b := rank (c_mother c)).
    - intros k Hk E. apply Hks in Hk. destruct Hk as [Hin _]. revert E. clear -Hin.
      induction (c_decays c) as [|[k' v'] r IH]; cbn in *; [contradiction|]. intro E.
      destruct (String.eqb k k') eqn:E'; [discriminate|]. destruct Hin as [->|Hin]; [rewrite String.eqb_refl in E'; discriminate|]. apply IH; assumption.
    - intros k m d Hk Em Hd Hpos. apply (Hac k m d); [apply Hks, Hk|exact Em|apply Hks, Hd|exact Hpos].
    - cbn [snd]. apply dd_of_map_nodup. apply (Hwf _ _ Et).
    - cbn [snd]. intros x Hx Hpos. rewrite dd_get_of_map in Hpos by (apply (Hwf _ _ Et)).
      apply (Hac (c_mother c) top x); [apply Hks, Hmk|exact Et|apply Hks, Hx|exact Hpos].
    - exact Hf. }
  destruct (loop fuel _ _ _) as [[bf fs]|]; [discriminate|contradiction].
Qed.
