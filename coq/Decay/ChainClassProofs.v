(* ChainClassProofs.v — lossless conversions (property C11): modes and final states. *)
From Coq Require Import String Ascii List Bool ZArith QArith Arith Lia Permutation.
From DL Require Import Fmt.DescFormat.
From DL Require Import Lib.Val Lib.PyDict Lib.Sort Decay.Conj Decay.ConjProofs Decay.Flatten Decay.FlattenProofs
  Decay.ChainDict Dec.Tables Decay.ChainClass.
Import ListNotations.
Close Scope Q_scope.
Open Scope string_scope.
Open Scope list_scope.

Notation cnt := (count_occ string_dec).

(* ------------------------------------------------------------------ counting *)
Lemma dd_get_of_list l : forall x, dd_get x (dd_of_list l) = cnt l x.
Proof.
  unfold dd_of_list.
  assert (G : forall acc x, dd_get x (fold_left (fun d y => pd_set y (S (dd_get y d)) d) l acc) = dd_get x acc + cnt l x).
  { induction l as [|y l IH]; intros acc x; simpl; [lia|].
    rewrite IH, dd_get_set. destruct (string_dec y x) as [->|Hne].
    - rewrite String.eqb_refl. lia.
    - destruct (String.eqb x y) eqn:E; [apply String.eqb_eq in E; congruence | lia]. }
  intros x. rewrite G. unfold dd_get. simpl. reflexivity.
Qed.

Lemma cnt_repeat k n x : cnt (repeat k n) x = if String.eqb x k then n else 0.
Proof.
  induction n; simpl; [destruct (String.eqb x k); reflexivity|].
  destruct (string_dec k x) as [->|Hne].
  - rewrite String.eqb_refl in *. lia.
  - destruct (String.eqb x k) eqn:E; [apply String.eqb_eq in E; congruence | assumption].
Qed.

Lemma cnt_app (l1 l2 : list string) x : cnt (l1 ++ l2) x = cnt l1 x + cnt l2 x.
Proof. apply count_occ_app. Qed.

Lemma cnt_elements (d : dd) x : NoDup (pd_keys d) -> cnt (dd_elements d) x = dd_get x d.
Proof.
  unfold dd_elements. induction d as [|[k n] d IH]; simpl; intros H; [reflexivity|].
  inversion H as [|? ? Hni Hnd]; subst. rewrite cnt_app, cnt_repeat, dd_get_cons, IH by assumption.
  destruct (String.eqb x k) eqn:E; [|reflexivity].
  apply String.eqb_eq in E. subst. unfold dd_get. rewrite pd_get_none by assumption. lia.
Qed.

Lemma elements_of_list_perm l : Permutation (dd_elements (dd_of_list l)) l.
Proof.
  apply (Permutation_count_occ string_dec). intros x.
  rewrite cnt_elements by (apply dd_of_list_wf). apply dd_get_of_list.
Qed.

(* building a final state from a list: canonical (sorted) report, insensitive to the order given,
   multiplicities counted, length = number of particles *)
Theorem to_list_of_list l : dd_to_list (dd_of_list l) = sort_strings l.
Proof. unfold dd_to_list. apply sort_canonical. apply elements_of_list_perm. Qed.

Theorem of_list_order_insensitive l l' : Permutation l l' ->
  dd_to_list (dd_of_list l) = dd_to_list (dd_of_list l') /\
  forall x, dd_get x (dd_of_list l) = dd_get x (dd_of_list l').
Proof.
  intros P. split.
  - rewrite !to_list_of_list. apply sort_canonical. assumption.
  - intros x. rewrite !dd_get_of_list. apply (Permutation_count_occ string_dec). assumption.
Qed.

Lemma total_elements (d : dd) : dd_total d = length (dd_elements d).
Proof.
  unfold dd_total, dd_elements. induction d as [|[k n] d IH]; simpl; [reflexivity|].
  rewrite app_length, repeat_length, IH. reflexivity.
Qed.

Theorem len_of_list l : dd_total (dd_of_list l) = length l.
Proof. rewrite total_elements. apply Permutation_length. apply elements_of_list_perm. Qed.

(* the canonical list determines the final state (as a multiset) *)
Theorem of_list_to_list (d : dd) : wf_dd d -> forall x, dd_get x (dd_of_list (dd_to_list d)) = dd_get x d.
Proof.
  intros [Hnd _] x. rewrite dd_get_of_list. unfold dd_to_list.
  rewrite <- (cnt_elements d x Hnd). apply (Permutation_count_occ string_dec). apply sort_perm.
Qed.

(* a mapping name -> positive count gives the same final state as the corresponding list *)
Theorem of_map_counts (l : list (string * nat)) : NoDup (map fst l) -> Forall (fun kv => 0 < snd kv) l ->
  dd_of_map l = l /\ dd_to_list (dd_of_map l) = sort_strings (flat_map (fun kv => repeat (fst kv) (snd kv)) l).
Proof.
  intros Hnd Hpos.
  assert (E : dd_of_map l = l).
  { unfold dd_of_map. rewrite filter_all.
    - apply pd_of_list_nodup. exact Hnd.
    - rewrite Forall_forall in *. intros kv H. apply Nat.ltb_lt. auto. }
  split; [exact E|]. rewrite E. reflexivity.
Qed.

(* ------------------------------------------------------------------ str.split on blanks *)
Fixpoint no_ws (s : string) : bool :=
  match s with EmptyString => true | String c r => negb (is_ws c) && no_ws r end.
Definition name_ok (s : string) : bool := no_ws s && negb (String.eqb s "").

Lemma str_of_rev_app acc s : no_ws s = true ->
  forall rest accl, split_ws_aux (s ++ rest) acc accl =
                    split_ws_aux rest (rev (list_ascii_of_string s) ++ acc) accl.
Proof.
  revert acc. induction s as [|c s IH]; intros acc H rest accl; simpl; [reflexivity|].
  simpl in H. apply andb_true_iff in H. destruct H as [Hc Hs]. apply negb_true_iff in Hc. rewrite Hc.
  rewrite IH by assumption. rewrite <- app_assoc. reflexivity.
Qed.

Lemma str_of_rev_rev' s : str_of_rev (rev (list_ascii_of_string s)) = s.
Proof.
  unfold str_of_rev. rewrite <- (fold_left_rev_right (fun c s => String c s)). rewrite rev_involutive.
  rewrite <- (string_of_list_ascii_of_string s) at 2.
  generalize (list_ascii_of_string s). induction l; simpl; congruence.
Qed.

Lemma append_nil_r (s : string) : (s ++ "")%string = s.
Proof. induction s; simpl; congruence. Qed.

(* names separated by single blanks (join " ") are split back into the same names *)
Theorem split_join l : Forall (fun s => name_ok s = true) l -> split_ws (join " " l) = l.
Proof.
  unfold split_ws.
  assert (G : forall accl, Forall (fun s => name_ok s = true) l ->
              split_ws_aux (join " " l) [] accl = rev accl ++ l).
  { induction l as [|s l IH]; intros accl H; simpl; [rewrite app_nil_r; reflexivity|].
    inversion H as [|? ? Hs Hl]; subst. unfold name_ok in Hs. apply andb_true_iff in Hs. destruct Hs as [Hw Hne].
    apply negb_true_iff in Hne. apply String.eqb_neq in Hne.
    destruct l as [|s2 l].
    - rewrite <- (append_nil_r s) at 1.
      rewrite str_of_rev_app by assumption. simpl. rewrite app_nil_r.
      destruct (rev (list_ascii_of_string s)) eqn:E.
      + exfalso. apply Hne. rewrite <- (str_of_rev_rev' s), E. reflexivity.
      + rewrite <- E, str_of_rev_rev'. simpl. reflexivity.
    - change (join " " (s :: s2 :: l)) with (s ++ String " " (join " " (s2 :: l))).
      rewrite str_of_rev_app by assumption. rewrite app_nil_r.
      cbn [split_ws_aux]. change (is_ws " ") with true. cbn iota.
      destruct (rev (list_ascii_of_string s)) eqn:E.
      + exfalso. apply Hne. rewrite <- (str_of_rev_rev' s), E. reflexivity.
      + rewrite <- E, str_of_rev_rev'. rewrite IH by assumption. simpl. rewrite <- app_assoc. reflexivity. }
  intros H. rewrite G by assumption. reflexivity.
Qed.

Theorem of_string_join l : Forall (fun s => name_ok s = true) l -> dd_of_string (join " " l) = dd_of_list l.
Proof. intros H. unfold dd_of_string. rewrite split_join by assumption. reflexivity. Qed.

(* ------------------------------------------------------------------ modes *)
Lemma names_of_FName l : names_of (map FName l) = l.
Proof. unfold names_of. rewrite map_map. simpl. apply map_id. Qed.

Lemma update_default_shape (X : pdict val) a b rest :
  X = ("model", a) :: ("model_params", b) :: rest -> NoDup (pd_keys X) -> pd_update default_meta X = X.
Proof.
  intros -> Hnd. unfold pd_update. simpl.
  change (fold_left (fun acc kv => pd_set (fst kv) (snd kv) acc) rest [("model", a); ("model_params", b)])
    with (pd_update [("model", a); ("model_params", b)] rest).
  rewrite pd_update_fresh; [reflexivity | exact Hnd].
Qed.

Lemma meta_out_shape a b rest :
  exists b', meta_out (("model", a) :: ("model_params", b) :: rest) = ("model", a) :: ("model_params", b') :: rest.
Proof.
  unfold meta_out. simpl. destruct b; eexists; reflexivity.
Qed.

(* DecayMode -> dict -> DecayMode: branching fraction, daughter multiset and all metadata come back
   (model_params None is reported as "" by design) *)
Theorem mode_roundtrip bf fs info : wf_dd fs ->
  let m := mk_mode bf fs info in
  let m' := mode_of_cm (mode_to_cm m) in
  m_bf m' = m_bf m /\ m_meta m' = meta_out (m_meta m) /\
  dd_to_list (m_fs m') = dd_to_list (m_fs m) /\ (forall x, dd_get x (m_fs m') = dd_get x (m_fs m)).
Proof.
  intros Hwf. simpl. rewrite names_of_FName. repeat split.
  - destruct (mk_mode_shape info) as [a [b [rest [E Hnd]]]]. rewrite E.
    destruct (meta_out_shape a b rest) as [b' Eb]. rewrite Eb.
    eapply update_default_shape; [reflexivity|]. exact Hnd.
  - rewrite to_list_of_list. unfold dd_to_list. apply sort_canonical. apply sort_perm.
  - intros x. apply of_list_to_list. assumption.
Qed.
