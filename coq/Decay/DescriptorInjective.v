(* DescriptorInjective.v — with the default patterns the descriptor string determines the chain dictionary up to the order of
   daughters: descr c = descr c' -> ceq c c'.  Names may contain parentheses as long as they are balanced, do not start with
   "(" and contain no blank (K*(892)0, a_1(1260)+ ...); every decay has at least one daughter.
   The argument is a reader: the top-level pieces of a descriptor (cut at blanks outside parentheses) are recovered exactly. *)
From Coq Require Import String Ascii List Bool Arith Lia Permutation.
From DL Require Import Fmt.DescFormat.
From DL Require Import Lib.Val Lib.PyDict Lib.Sort Decay.Conj Decay.ChainDict Decay.DescriptorProofs.
Import ListNotations.
Open Scope string_scope.
Open Scope list_scope.

Definition dcfg : string * string := ("{mother} -> {daughters}", "({mother} -> {daughters})").

Lemma sapp_nil_r (s : string) : (s ++ "")%string = s.
Proof. induction s as [|c s IH]; cbn; [reflexivity|rewrite IH; reflexivity]. Qed.
Lemma sapp_assoc (a b c : string) : ((a ++ b) ++ c)%string = (a ++ (b ++ c))%string.
Proof. induction a as [|x a IH]; cbn; [reflexivity|rewrite IH; reflexivity]. Qed.
Lemma slen_app (a b : string) : String.length (a ++ b)%string = String.length a + String.length b.
Proof. induction a as [|x a IH]; cbn; [reflexivity|rewrite IH; reflexivity]. Qed.
Lemma sapp_inv_tail (c : string) : forall a b, (a ++ c)%string = (b ++ c)%string -> a = b.
Proof.
  induction a as [|x a IH]; intros b H.
  - destruct b as [|y b]; [reflexivity|]. apply (f_equal String.length) in H. cbn in H. rewrite slen_app in H. lia.
  - destruct b as [|y b].
    + apply (f_equal String.length) in H. cbn in H. rewrite slen_app in H. lia.
    + cbn in H. injection H as -> H. f_equal. apply IH, H.
Qed.

Lemma fmt_top m d : fmt dcfg true m d = (m ++ " -> " ++ d)%string.
Proof. unfold fmt. cbn. rewrite !sapp_assoc. reflexivity. Qed.
Lemma fmt_nested m d : fmt dcfg false m d = ("(" ++ (m ++ " -> " ++ d) ++ ")")%string.
Proof. unfold fmt. cbn. rewrite !sapp_assoc. reflexivity. Qed.

(* ------------------------------------------------------------------ pieces *)
Definition is_lp (c : ascii) := Ascii.eqb c "(".
Definition is_rp (c : ascii) := Ascii.eqb c ")".
Definition is_sp (c : ascii) := Ascii.eqb c " ".

(* depth after the piece; None: a blank outside parentheses, or a closing parenthesis too many *)
Fixpoint scan (s : string) (d : nat) : option nat :=
  match s with
  | EmptyString => Some d
  | String c r =>
      if is_lp c then scan r (S d)
      else if is_rp c then match d with 0 => None | S d' => scan r d' end
      else if is_sp c then match d with 0 => None | S _ => scan r d end
      else scan r d
  end.
Definition atom (s : string) : Prop := s <> "" /\ scan s 0 = Some 0.
Definition name_ok (n : string) : Prop := atom n /\ match n with String c _ => is_lp c = false | EmptyString => False end.

Fixpoint split_top (s : string) (d : nat) (cur : string) : list string :=
  match s with
  | EmptyString => [cur]
  | String c r =>
      if is_lp c then split_top r (S d) (cur ++ String c "")
      else if is_rp c then split_top r (pred d) (cur ++ String c "")
      else if is_sp c then match d with 0 => cur :: split_top r 0 "" | S _ => split_top r d (cur ++ String c "") end
      else split_top r d (cur ++ String c "")
  end.

Lemma split_scan x : forall d d' cur r, scan x d = Some d' -> split_top (x ++ r) d cur = split_top r d' (cur ++ x).
Proof.
  induction x as [|c x IH]; intros d d' cur r H; cbn in H.
  - injection H as <-. rewrite sapp_nil_r. reflexivity.
  - cbn [append split_top]. destruct (is_lp c).
    + rewrite (IH _ _ _ _ H). rewrite sapp_assoc. reflexivity.
    + destruct (is_rp c).
      * destruct d as [|d0]; [discriminate|]. cbn [pred]. rewrite (IH _ _ _ _ H). rewrite sapp_assoc. reflexivity.
      * destruct (is_sp c).
        -- destruct d as [|d0]; [discriminate|]. rewrite (IH _ _ _ _ H). rewrite sapp_assoc. reflexivity.
        -- rewrite (IH _ _ _ _ H). rewrite sapp_assoc. reflexivity.
Qed.

Lemma split_join items : Forall atom items -> items <> [] -> split_top (join " " items) 0 "" = items.
Proof.
  induction 1 as [|x r [_ Hx] _ IH]; intro Hne; [congruence|].
  destruct r as [|y r].
  - cbn [join]. rewrite <- (sapp_nil_r x) at 1. rewrite (split_scan _ _ _ _ _ Hx). reflexivity.
  - change (join " " (x :: y :: r)) with (x ++ " " ++ join " " (y :: r))%string.
    rewrite (split_scan _ _ _ _ _ Hx). remember (join " " (y :: r)) as J eqn:EJ. cbn. subst J.
    rewrite IH by discriminate. reflexivity.
Qed.

Lemma scan_shift x : forall d d' k, scan x d = Some d' -> scan x (d + k) = Some (d' + k).
Proof.
  induction x as [|c x IH]; intros d d' k H; cbn in *.
  - injection H as <-. reflexivity.
  - destruct (is_lp c); [apply (IH (S d)), H|].
    destruct (is_rp c); [destruct d; [discriminate|apply IH, H]|].
    destruct (is_sp c); [destruct d; [discriminate|apply (IH (S d)), H]|apply IH, H].
Qed.
Lemma scan_app x : forall y d, scan (x ++ y) d = match scan x d with Some d' => scan y d' | None => None end.
Proof.
  induction x as [|c x IH]; intros y d; cbn; [reflexivity|].
  destruct (is_lp c); [apply IH|]. destruct (is_rp c); [destruct d; [reflexivity|apply IH]|].
  destruct (is_sp c); [destruct d; [reflexivity|apply IH]|apply IH].
Qed.
Lemma scan_join_deep items : Forall atom items -> forall d, scan (join " " items) (S d) = Some (S d).
Proof.
  induction 1 as [|x r [_ Hx] _ IH]; intro d; [reflexivity|].
  pose proof (scan_shift _ _ _ (S d) Hx) as Hs. cbn in Hs.
  destruct r as [|y r]; [exact Hs|].
  change (join " " (x :: y :: r)) with (x ++ " " ++ join " " (y :: r))%string.
  rewrite scan_app, Hs. cbn. apply IH.
Qed.

Lemma atom_paren items : Forall atom items -> items <> [] -> atom ("(" ++ join " " items ++ ")")%string.
Proof.
  intros H Hne. split; [discriminate|]. cbn. rewrite scan_app, (scan_join_deep _ H). reflexivity.
Qed.
Lemma atom_arrow : atom "->". Proof. split; [discriminate|reflexivity]. Qed.

Lemma join_inj l l' : Forall atom l -> Forall atom l' -> l <> [] -> l' <> [] -> join " " l = join " " l' -> l = l'.
Proof. intros H H' N N' E. rewrite <- (split_join l H N), <- (split_join l' H' N'), E. reflexivity. Qed.

(* ------------------------------------------------------------------ well-formed single chains *)
Inductive wfc : cdict -> Prop :=
| wfc_intro m bf fs meta : name_ok m -> fs <> [] -> Forall wff fs -> wfc (CD m [CM bf fs meta])
with wff : fsp -> Prop :=
| wff_name n : name_ok n -> wff (ChainDict.FName n)
| wff_sub c : wfc c -> wff (FSub c).

Definition body (c : cdict) : list string :=
  match c with
  | CD m (CM _ fs _ :: _) => m :: "->" :: sort_strings (map (ditem dcfg) fs)
  | CD m [] => [m]
  end.

Lemma join_body m items : items <> [] -> (m ++ " -> " ++ join " " items)%string = join " " (m :: "->" :: items).
Proof. destruct items as [|x r]; [congruence|]. intros _. reflexivity. Qed.

Lemma sort_nonempty l : l <> [] -> sort_strings l <> [].
Proof. intros H E. apply (f_equal (@length string)) in E. rewrite sort_length in E. destruct l; [congruence|discriminate]. Qed.

Lemma descr_forms c : wfc c ->
  descr dcfg true c = join " " (body c) /\ descr dcfg false c = ("(" ++ join " " (body c) ++ ")")%string.
Proof.
  intro H. inversion H as [m bf fs meta Hm Hne Hfs]; subst. cbn [descr body].
  fold (ditem dcfg). rewrite fmt_top, fmt_nested.
  assert (N : sort_strings (map (ditem dcfg) fs) <> []) by (apply sort_nonempty; destruct fs; [congruence|discriminate]).
  rewrite (join_body _ _ N). split; reflexivity.
Qed.

(* every piece of a well-formed descriptor is an atom; nested descriptors start with "(" *)
Lemma wf_atoms : forall n c, csz c < n -> wfc c -> Forall atom (body c).
Proof.
  induction n as [|n IH]; intros c Hn H; [lia|].
  inversion H as [m bf fs meta [Hm _] Hne Hfs]; subst. cbn [body].
  constructor; [exact Hm|]. constructor; [exact atom_arrow|].
  apply (Permutation_Forall (Permutation_sym (sort_perm _))).
  cbn in Hn. clear Hne H. induction Hfs as [|f fs Hf _ IHf]; [constructor|]. cbn [map]. cbn [fold_right] in Hn. constructor.
  - destruct Hf as [k [Hk _]|c' Hc']; [exact Hk|]. cbn [ditem]. rewrite (proj2 (descr_forms _ Hc')).
    apply atom_paren; [apply IH; [lia|exact Hc']|]. destruct c' as [m' [|[bf' fs' meta'] r]]; discriminate.
  - apply IHf. destruct f; lia.
Qed.

Lemma body_nonempty c : body c <> [].
Proof. destruct c as [m [|[bf fs meta] r]]; discriminate. Qed.

Theorem descr_injective : forall n c c' top, csz c < n -> wfc c -> wfc c' ->
  descr dcfg top c = descr dcfg top c' -> ceq c c'.
Proof.
  induction n as [|n IH]; intros c c' top Hn H H' E; [lia|].
  assert (Eb : body c = body c').
  { destruct (descr_forms _ H) as [T1 N1]. destruct (descr_forms _ H') as [T2 N2].
    apply join_inj; try apply body_nonempty; try (eapply wf_atoms; [apply Nat.lt_succ_diag_r|assumption]).
    destruct top; [rewrite T1, T2 in E; exact E|].
    rewrite N1, N2 in E. cbn in E. injection E as E. apply sapp_inv_tail in E. exact E. }
  inversion H as [m bf fs meta Hm Hne Hfs]; subst. inversion H' as [m' bf' fs' meta' Hm' Hne' Hfs']; subst.
  cbn [body] in Eb. injection Eb as -> Es.
  assert (HP : Permutation (map (ditem dcfg) fs) (map (ditem dcfg) fs')).
  { eapply Permutation_trans; [apply Permutation_sym, sort_perm|]. rewrite Es. apply sort_perm. }
  apply Permutation_sym in HP. apply Permutation_map_inv in HP. destruct HP as [mid [Emid HPm]].
  symmetry in Emid.
  apply (ceq_intro m' bf bf' meta meta' fs fs' mid); [exact HPm|].
  (* elementwise: equal pieces come from equivalent daughters *)
  assert (Hsz : fold_right (fun f a => match f with ChainDict.FName _ => 1 | FSub c' => csz c' end + a) 0 mid < n).
  { cbn in Hn. rewrite <- (fsz_perm _ _ HPm). lia. }
  assert (Hwm : Forall wff mid) by (apply (Permutation_Forall HPm); exact Hfs).
  clear - IH Emid Hsz Hwm Hfs'. revert fs' Emid Hfs'.
  induction mid as [|a mid IHm]; intros fs' Emid Hfs'; destruct fs' as [|b fs']; try discriminate; [constructor|].
  cbn [map] in Emid. injection Emid as Eab Erest. cbn [fold_right] in Hsz.
  inversion Hwm as [|? ? Ha Hwm']; subst. inversion Hfs' as [|? ? Hb Hfs'']; subst.
  constructor; [|apply IHm; [destruct a; lia|assumption|assumption|assumption]].
  destruct Ha as [k [_ Hk]|ca Hca]; destruct Hb as [k' [_ Hk']|cb Hcb]; cbn [ditem] in Eab.
  - subst. constructor.
  - rewrite (proj2 (descr_forms _ Hcb)) in Eab. subst k. cbn in Hk. discriminate.
  - rewrite (proj2 (descr_forms _ Hca)) in Eab. subst k'. cbn in Hk'. discriminate.
  - constructor. apply (IH ca cb false); [lia|assumption|assumption|exact Eab].
Qed.
