(* Flatten.v — model of DecayChain.flatten (src/decaylanguage/decay/decay.py:972-1033),
   transcribing the loop as written, with the Counter operations it uses:
     fs += other      Counter.__iadd__: add counts in place, then drop non-positive entries
     fs[k] -= n       item assignment (missing key reads as 0)
     k in fs          dict membership (an entry with count 0 is still "in")
   No proofs here. *)
From Coq Require Import String Ascii List Bool ZArith QArith Arith.
From DL Require Import Lib.Val Lib.PyDict Decay.Conj.
Import ListNotations.
Close Scope Q_scope.
Open Scope string_scope.

Record chain := { c_mother : string; c_decays : pdict mode }.

Definition keep_positive (d : dd) : dd := filter (fun kv => Nat.ltb 0 (snd kv)) d.

Definition counter_iadd (fs other : dd) : dd :=
  keep_positive (fold_left (fun acc kv => pd_set (fst kv) (dd_get (fst kv) acc + snd kv) acc) other fs).

Fixpoint iter_iadd (n : nat) (fs other : dd) : dd :=
  match n with
  | 0 => fs
  | S n' => iter_iadd n' (counter_iadd fs other) other
  end.

Fixpoint Qpow (x : Q) (n : nat) : Q :=
  match n with 0 => 1%Q | S n' => (x * Qpow x n')%Q end.

(* one `for k in keys:` body *)
Definition step_key (decays : pdict mode) (st : Q * dd) (k : string) : Q * dd :=
  let '(bf, fs) := st in
  if pd_mem k fs then
    match pd_get k decays with
    | None => st
    | Some m =>
        let n := dd_get k fs in
        let fs1 := iter_iadd n fs (m_fs m) in
        ((bf * Qpow (m_bf m) n)%Q, pd_set k (dd_get k fs1 - n) fs1)
    end
  else st.

Definition any_positive (keys : list string) (fs : dd) : bool :=
  existsb (fun k => Nat.ltb 0 (dd_get k fs)) keys.

Fixpoint loop (fuel : nat) (decays : pdict mode) (keys : list string) (st : Q * dd) : option (Q * dd) :=
  match fuel with
  | 0 => None                                           (* out of fuel: distinct from every result *)
  | S f =>
      let st' := fold_left (step_key decays) keys st in
      if any_positive keys (snd st') then loop f decays keys st' else Some st'
  end.

Fixpoint remove_first (x : string) (l : list string) : list string :=
  match l with
  | [] => []
  | y :: r => if String.eqb x y then r else y :: remove_first x r
  end.

(* keys = [k for k in decays if k not in stable]; mother moved to the front *)
Definition flatten_keys (c : chain) (stable : list string) : option (list string) :=
  let ks := filter (fun k => negb (existsb (String.eqb k) stable)) (pd_keys (c_decays c)) in
  if existsb (String.eqb (c_mother c)) ks then Some (c_mother c :: remove_first (c_mother c) ks)
  else None.                                            (* ValueError: mother not in list *)

Inductive fres := FOk (m : mode) | FErr (e : string) | FOutOfFuel.

Definition flatten (fuel : nat) (c : chain) (stable : list string) : fres :=
  match pd_get (c_mother c) (c_decays c) with
  | None => FErr "KeyError"
  | Some top =>
      match flatten_keys c stable with
      | None => FErr "ValueError"
      | Some keys =>
          match loop fuel (c_decays c) keys (m_bf top, dd_of_map (m_fs top)) with
          | None => FOutOfFuel
          | Some (bf, fs) => FOk (mk_mode bf (dd_of_map fs) (m_meta top))
          end
      end
  end.

Definition vfres (r : fres) : val :=
  match r with
  | FOk m => vmode m
  | FErr e => VErr e
  | FOutOfFuel => VErr "OutOfFuel"
  end.
