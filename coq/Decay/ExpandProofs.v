(* ExpandProofs.v — _expand_decay_modes enumerates every complete decay path exactly once
   (property C10) and renders each as its descriptor. *)
From Coq Require Import String Ascii List Bool ZArith QArith Arith Lia.
From DL Require Import Lib.Val Lib.PyDict Lib.Sort Lib.Product Fmt.DescFormat Decay.ChainDict.
Import ListNotations.
Close Scope Q_scope.
Open Scope string_scope.
Open Scope list_scope.

(* ------------------------------------------------------------------ induction principle *)
Section CdictInd.
Variables (P : cdict -> Prop) (Pm : cmode -> Prop) (Pf : fsp -> Prop).
Hypothesis HCD : forall m ms, Forall Pm ms -> P (CD m ms).
Hypothesis HCM : forall bf fs meta, Forall Pf fs -> Pm (CM bf fs meta).
Hypothesis HN : forall n, Pf (FName n).
Hypothesis HS : forall c, P c -> Pf (FSub c).

Fixpoint cdict_ind' (c : cdict) : P c :=
  match c with
  | CD m ms => HCD m ms ((fix go (l : list cmode) : Forall Pm l :=
                           match l with [] => Forall_nil _ | x :: r => Forall_cons x (cmode_ind' x) (go r) end) ms)
  end
with cmode_ind' (m : cmode) : Pm m :=
  match m with
  | CM bf fs meta => HCM bf fs meta ((fix go (l : list fsp) : Forall Pf l :=
                           match l with [] => Forall_nil _ | x :: r => Forall_cons x (fsp_ind' x) (go r) end) fs)
  end
with fsp_ind' (f : fsp) : Pf f :=
  match f with
  | FName n => HN n
  | FSub c => HS c (cdict_ind' c)
  end.
End CdictInd.

(* ------------------------------------------------------------------ the specification: decay paths *)
Inductive ptree := PT (mother : string) (line : nat) (items : list pitem)
with pitem := PLeaf (n : string) | PSub (t : ptree).

(* a path through c: one decay line of the mother and, recursively, one for every daughter
   that has decay lines; a daughter without decay lines (none at all, or an empty block) is a leaf *)
Inductive vpath : cdict -> ptree -> Prop :=
| vp_intro m modes i bf fs meta items :
    nth_error modes i = Some (CM bf fs meta) ->
    Forall2 vitem fs items ->
    vpath (CD m modes) (PT m i items)
with vitem : fsp -> pitem -> Prop :=
| vi_name n : vitem (FName n) (PLeaf n)
| vi_stable c : cd_modes c = [] -> vitem (FSub c) (PLeaf (cd_mother c))
| vi_sub c t : vpath c t -> vitem (FSub c) (PSub t).

Fixpoint paths_from (pth : cdict -> list ptree) (m : string) (i : nat) (modes : list cmode) : list ptree :=
  match modes with
  | [] => []
  | CM _ fs _ :: r =>
      map (PT m i) (product (map (fun f => match f with
                                           | FName n => [PLeaf n]
                                           | FSub c' => match pth c' with
                                                        | [] => [PLeaf (cd_mother c')]
                                                        | ps => map PSub ps
                                                        end
                                           end) fs))
      ++ paths_from pth m (S i) r
  end.

Fixpoint paths (c : cdict) : list ptree :=
  match c with
  | CD m modes =>
      (fix go (i : nat) (l : list cmode) : list ptree :=
         match l with
         | [] => []
         | CM _ fs _ :: r =>
             map (PT m i) (product (map (fun f => match f with
                                                  | FName n => [PLeaf n]
                                                  | FSub c' => match paths c' with
                                                               | [] => [PLeaf (cd_mother c')]
                                                               | ps => map PSub ps
                                                               end
                                                  end) fs))
             ++ go (S i) r
         end) 0 modes
  end.

Lemma paths_unfold m modes : paths (CD m modes) = paths_from paths m 0 modes.
Proof.
  simpl. generalize 0. induction modes as [|[bf fs meta] r IH]; intros i; simpl; [reflexivity|].
  rewrite IH. reflexivity.
Qed.

Definition item_opts (f : fsp) : list pitem :=
  match f with
  | FName n => [PLeaf n]
  | FSub c' => match paths c' with [] => [PLeaf (cd_mother c')] | ps => map PSub ps end
  end.

(* number of paths: sum over lines of the product over daughters of their own counts (stable = 1) *)
Fixpoint count (c : cdict) : nat :=
  match c with
  | CD m modes =>
      fold_right (fun md acc =>
        match md with
        | CM _ fs _ => fold_right (fun f a => match f with
                                              | FName _ => 1
                                              | FSub c' => match count c' with 0 => 1 | n => n end
                                              end * a) 1 fs
        end + acc) 0 modes
  end.

Fixpoint render_path (cfg : string * string) (al : pdict string) (top : bool) (t : ptree) : string :=
  match t with
  | PT m _ items =>
      fmt cfg top (alias_of al m)
          (join " " (sort_strings (map (fun it => match it with
                                                  | PLeaf n => n
                                                  | PSub t' => render_path cfg al false t'
                                                  end) items)))
  end.

Definition render_item cfg al (it : pitem) : string :=
  match it with PLeaf n => n | PSub t' => render_path cfg al false t' end.

(* ------------------------------------------------------------------ expand = map render paths *)
Lemma map_product {A B} (f : A -> B) (ls : list (list A)) :
  map (map f) (product ls) = product (map (map f) ls).
Proof.
  induction ls as [|l r IH]; simpl; [reflexivity|].
  rewrite <- IH. clear IH. induction l as [|a l IHl]; simpl; [reflexivity|].
  rewrite map_app, IHl. f_equal. rewrite !map_map. reflexivity.
Qed.

Lemma flat_map_app_ {A B} (f : A -> list B) l1 l2 : flat_map f (l1 ++ l2) = flat_map f l1 ++ flat_map f l2.
Proof. induction l1; simpl; [reflexivity|]. rewrite IHl1, app_assoc. reflexivity. Qed.

Theorem expand_paths cfg al : forall c top,
  expand cfg al top c = map (render_path cfg al top) (paths c).
Proof.
  apply (cdict_ind'
    (fun c => forall top, expand cfg al top c = map (render_path cfg al top) (paths c))
    (fun md => forall top m i,
        map (fun combo => fmt cfg top (alias_of al m) (join " " (sort_strings combo)))
            (product (map (fun f => match f with
                                    | FName n => [n]
                                    | FSub c' => match expand cfg al false c' with [] => [cd_mother c'] | e => e end
                                    end) (cm_fs md)))
        = map (render_path cfg al top) (map (PT m i) (product (map item_opts (cm_fs md)))))
    (fun f => match f with
              | FName n => [n]
              | FSub c' => match expand cfg al false c' with [] => [cd_mother c'] | e => e end
              end = map (render_item cfg al) (item_opts f))).
  - (* CD *)
    intros m ms IH top. rewrite paths_unfold. simpl. generalize 0.
    induction IH as [|[bf fs meta] r Hx Hr IHr]; intros i; simpl; [reflexivity|].
    rewrite map_app. rewrite <- (IHr (S i)). f_equal.
    specialize (Hx top m i). simpl in Hx. exact Hx.
  - (* CM *)
    intros bf fs meta IH top m i. simpl.
    rewrite !map_map. simpl.
    assert (E : map (fun f => match f with
                              | FName n => [n]
                              | FSub c' => match expand cfg al false c' with [] => [cd_mother c'] | e => e end
                              end) fs = map (map (render_item cfg al)) (map item_opts fs)).
    { rewrite map_map. induction IH as [|f r Hf Hr IHr]; simpl; [reflexivity|]. rewrite Hf, IHr. reflexivity. }
    rewrite E. rewrite <- map_product. rewrite map_map. reflexivity.
  - (* FName *) intros n. reflexivity.
  - (* FSub *)
    intros c IH. simpl. rewrite IH. destruct (paths c) as [|p ps]; simpl; [reflexivity|].
    rewrite map_map. reflexivity.
Qed.

(* ------------------------------------------------------------------ length = count *)
Lemma paths_from_length m : forall modes i,
  length (paths_from paths m i modes) =
  fold_right (fun md acc => length (product (map item_opts (cm_fs md))) + acc) 0 modes.
Proof.
  induction modes as [|[bf fs meta] r IH]; intros i; simpl; [reflexivity|].
  rewrite app_length, map_length, IH. reflexivity.
Qed.

Theorem paths_count : forall c, length (paths c) = count c.
Proof.
  apply (cdict_ind'
    (fun c => length (paths c) = count c)
    (fun md => length (product (map item_opts (cm_fs md))) =
               fold_right (fun f a => match f with
                                      | FName _ => 1
                                      | FSub c' => match count c' with 0 => 1 | n => n end
                                      end * a) 1 (cm_fs md))
    (fun f => length (item_opts f) = match f with
                                     | FName _ => 1
                                     | FSub c' => match count c' with 0 => 1 | n => n end
                                     end)).
  - intros m ms IH. rewrite paths_unfold, paths_from_length. simpl.
    induction IH as [|[bf fs meta] r Hx Hr IHr]; simpl; [reflexivity|].
    simpl in Hx. rewrite Hx, IHr. reflexivity.
  - intros bf fs meta IH. simpl. rewrite product_length.
    induction IH as [|f r Hf Hr IHr]; simpl; [reflexivity|]. rewrite Hf, IHr. reflexivity.
  - reflexivity.
  - intros c IH. simpl. rewrite <- IH. destruct (paths c); simpl; [reflexivity|].
    rewrite map_length. reflexivity.
Qed.

(* ------------------------------------------------------------------ In <-> valid path *)
Lemma item_opts_nonempty f : item_opts f <> [].
Proof.
  destruct f as [n|c]; simpl; [discriminate|]. destruct (paths c); simpl; discriminate.
Qed.

Lemma product_nonempty {A} (ls : list (list A)) : Forall (fun o => o <> []) ls -> product ls <> [].
Proof.
  induction 1 as [|o l Ho Hl IHl]; simpl; [discriminate|].
  destruct o as [|a o]; [congruence|]. simpl. destruct (product l); [congruence | discriminate].
Qed.

Lemma paths_nil_iff c : paths c = [] <-> cd_modes c = [].
Proof.
  destruct c as [m modes]. rewrite paths_unfold. simpl. split.
  - destruct modes as [|[bf fs meta] r]; [reflexivity|]. simpl. intros H.
    apply app_eq_nil in H. destruct H as [H _]. apply map_eq_nil in H.
    exfalso. revert H. apply (product_nonempty (map item_opts fs)).
    rewrite Forall_forall. intros o Ho. apply in_map_iff in Ho. destruct Ho as [f [<- _]].
    apply item_opts_nonempty.
  - intros ->. reflexivity.
Qed.

Lemma in_paths_from m t : forall modes i,
  In t (paths_from paths m i modes) <->
  exists j bf fs meta items, nth_error modes j = Some (CM bf fs meta) /\ t = PT m (i + j) items /\
                             In items (product (map item_opts fs)).
Proof.
  induction modes as [|[bf fs meta] r IH]; intros i; simpl.
  - split; [intros [] | intros [j [? [? [? [? [H _]]]]]]; destruct j; discriminate].
  - rewrite in_app_iff, IH. split.
    + intros [H|[j [bf' [fs' [meta' [items [Hn [-> Hin]]]]]]]].
      * apply in_map_iff in H. destruct H as [items [<- Hin]].
        exists 0, bf, fs, meta, items. rewrite Nat.add_0_r. auto.
      * exists (S j), bf', fs', meta', items. rewrite Nat.add_succ_r. auto.
    + intros [[|j] [bf' [fs' [meta' [items [Hn [-> Hin]]]]]]]; simpl in Hn.
      * inversion Hn; subst. left. apply in_map_iff. exists items. rewrite Nat.add_0_r. auto.
      * right. exists j, bf', fs', meta', items. rewrite Nat.add_succ_r. auto.
Qed.

Lemma Forall2_flip_map {A B C} (R : B -> C -> Prop) (f : A -> C) (l : list A) (x : list B) :
  Forall2 R x (map f l) <-> Forall2 (fun a b => R b (f a)) l x.
Proof.
  revert x. induction l as [|a l IH]; intros x; simpl.
  - split; intros H; inversion H; constructor.
  - split; intros H; inversion H; subst; constructor; auto; apply IH; assumption.
Qed.

Lemma Forall2_iff {A B} (R R' : A -> B -> Prop) l :
  Forall (fun a => forall b, R a b <-> R' a b) l -> forall x, Forall2 R l x <-> Forall2 R' l x.
Proof.
  induction 1 as [|a l Ha Hl IH]; intros x.
  - split; intros H; inversion H; constructor.
  - split; intros H; inversion H; subst; constructor; try apply Ha; try apply IH; auto.
Qed.

(* the enumeration is sound and complete for the specification *)
Theorem in_paths_iff : forall c t, In t (paths c) <-> vpath c t.
Proof.
  apply (cdict_ind'
    (fun c => forall t, In t (paths c) <-> vpath c t)
    (fun md => forall items, Forall2 (fun f it => In it (item_opts f)) (cm_fs md) items <->
                             Forall2 vitem (cm_fs md) items)
    (fun f => forall it, In it (item_opts f) <-> vitem f it)).
  - intros m ms IH t. rewrite paths_unfold, in_paths_from. simpl. split.
    + intros [j [bf [fs [meta [items [Hn [-> Hin]]]]]]].
      econstructor; [exact Hn|].
      rewrite Forall_forall in IH. specialize (IH _ (nth_error_In _ _ Hn)). simpl in IH.
      apply IH. apply in_product in Hin. apply Forall2_flip_map in Hin. exact Hin.
    + intros H. inversion H as [m' modes i bf fs meta items Hn Hf]; subst.
      exists i, bf, fs, meta, items. repeat split; [assumption|].
      rewrite Forall_forall in IH. specialize (IH _ (nth_error_In _ _ Hn)). simpl in IH.
      apply in_product. apply Forall2_flip_map. apply IH. assumption.
  - intros bf fs meta IH items. simpl. apply Forall2_iff. exact IH.
  - intros n it. simpl. split.
    + intros [<-|[]]. constructor.
    + intros H. inversion H. left. reflexivity.
  - intros c IH it. simpl. destruct (paths c) as [|p ps] eqn:E.
    + assert (Hm : cd_modes c = []) by (apply paths_nil_iff; assumption). simpl. split.
      * intros [<-|[]]. constructor. assumption.
      * intros H. inversion H as [|c' Hc|c' t Ht]; subst; [left; reflexivity|].
        apply IH in Ht. destruct Ht.
    + assert (Hm : cd_modes c <> []) by (rewrite <- paths_nil_iff, E; discriminate). split.
      * intros H. change (PSub p :: map PSub ps) with (map PSub (p :: ps)) in H.
        apply in_map_iff in H. destruct H as [t [<- Ht]]. constructor. apply IH. assumption.
      * intros H. inversion H as [|c' Hc|c' t Ht]; subst; [contradiction|].
        change (PSub p :: map PSub ps) with (map PSub (p :: ps)).
        apply in_map_iff. exists t. split; [reflexivity|]. apply IH. assumption.
Qed.

(* ------------------------------------------------------------------ no path is listed twice *)
Lemma paths_from_line m t : forall modes i, In t (paths_from paths m i modes) ->
  match t with PT _ l _ => i <= l end.
Proof.
  intros modes i H. apply in_paths_from in H. destruct H as [j [? [? [? [? [_ [-> _]]]]]]]. lia.
Qed.

Lemma NoDup_map_inj_ {A B} (f : A -> B) l : (forall a b, f a = f b -> a = b) -> NoDup l -> NoDup (map f l).
Proof.
  intros Hinj. induction 1; simpl; constructor; [|assumption].
  intros Hin. apply in_map_iff in Hin. destruct Hin as [y [E Hy]]. apply Hinj in E. subst. contradiction.
Qed.

Theorem paths_nodup : forall c, NoDup (paths c).
Proof.
  apply (cdict_ind'
    (fun c => NoDup (paths c))
    (fun md => NoDup (product (map item_opts (cm_fs md))))
    (fun f => NoDup (item_opts f))).
  - intros m ms IH. rewrite paths_unfold. generalize 0.
    induction IH as [|[bf fs meta] r Hx Hr IHr]; intros i; simpl; [constructor|].
    apply NoDup_app_disj.
    + apply NoDup_map_inj_; [intros a b E; inversion E; reflexivity | exact Hx].
    + apply IHr.
    + intros t Ht Ht'. apply in_map_iff in Ht. destruct Ht as [items [<- _]].
      apply paths_from_line in Ht'. lia.
  - intros bf fs meta IH. simpl. apply product_nodup.
    rewrite Forall_forall in *. intros o Ho. apply in_map_iff in Ho. destruct Ho as [f [<- Hf]]. auto.
  - intros n. simpl. repeat constructor. intros [].
  - intros c IH. simpl. destruct (paths c) as [|p ps] eqn:E; [repeat constructor; intros []|].
    change (PSub p :: map PSub ps) with (map PSub (p :: ps)).
    apply NoDup_map_inj_; [intros a b H; inversion H; reflexivity | assumption].
Qed.
