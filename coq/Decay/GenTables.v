(* GenTables.v — the regenerated particle tables packaged for the model, and the boolean
   obligations about them, discharged by computation each time the tables are regenerated. *)
From Coq Require Import String List Bool ZArith.
From DL Require Import Lib.PyDict Decay.Conj Decay.ConjProofs Gen.GenParticles.
Import ListNotations.

Definition gen_tables : tables :=
  {| t_evt_id := evt_id; t_id_evt := id_evt; t_invert := db_invert; t_selfconj := db_selfconj;
     t_pdg_evt := pdg_evt; t_evt_pdg := evt_pdg |}.

Lemma gen_tables_ok : tables_ok gen_tables = true.
Proof. vm_compute. reflexivity. Qed.

Lemma gen_pdg_tables_ok : pdg_tables_ok gen_tables = true.
Proof. vm_compute. reflexivity. Qed.

Definition cc := cc_name gen_tables.
Definition cc_pdg := cc_name_pdg gen_tables.

Lemma cc_inj : forall a b, cc a = cc b -> a = b.
Proof. exact (cc_injective gen_tables gen_tables_ok). Qed.
