(* FlattenProofs.v — loop invariant of DecayChain.flatten (property C12). *)
From Coq Require Import String Ascii List Bool ZArith QArith Qcanon Arith Lia.
From DL Require Import Lib.Val Lib.PyDict Lib.Monoid Decay.Conj Decay.ConjProofs Decay.Flatten.
Import ListNotations.
Close Scope Q_scope.
Open Scope string_scope.
Open Scope list_scope.

(* ------------------------------------------------------------------ Counter operations, extensionally *)
Definition G (fs : dd) : string -> nat := fun p => dd_get p fs.

Lemma dd_get_set x k v (d : dd) : dd_get x (pd_set k v d) = if String.eqb x k then v else dd_get x d.
Proof.
  unfold dd_get. destruct (String.eqb x k) eqn:E.
  - apply String.eqb_eq in E. subst. rewrite pd_get_set_same. reflexivity.
  - rewrite pd_get_set_other; [reflexivity|]. intros ->. rewrite String.eqb_refl in E. discriminate.
Qed.

Lemma keys_filter_sub (f : string * nat -> bool) (d : dd) x : In x (pd_keys (filter f d)) -> In x (pd_keys d).
Proof.
  unfold pd_keys. rewrite !in_map_iff. intros [kv [E H]]. apply filter_In in H. exists kv. tauto.
Qed.

Lemma filter_nodup_keys (f : string * nat -> bool) (d : dd) : NoDup (pd_keys d) -> NoDup (pd_keys (filter f d)).
Proof.
  induction d as [|[k v] d IH]; simpl; intros H; [constructor|].
  inversion H; subst. destruct (f (k, v)); simpl.
  - constructor; [|auto]. intros Hin. apply keys_filter_sub in Hin. contradiction.
  - auto.
Qed.

Lemma dd_get_keep_positive x (d : dd) : NoDup (pd_keys d) -> dd_get x (keep_positive d) = dd_get x d.
Proof.
  unfold keep_positive, dd_get. induction d as [|[k v] d IH]; simpl; intros H; [reflexivity|].
  inversion H as [|? ? Hni Hnd]; subst.
  destruct (Nat.ltb 0 v) eqn:Ev; simpl.
  - destruct (String.eqb x k); [reflexivity | auto].
  - destruct (String.eqb x k) eqn:E.
    + apply String.eqb_eq in E. subst. apply Nat.ltb_ge in Ev.
      rewrite pd_get_none; [lia|]. intros Hin. apply keys_filter_sub in Hin. contradiction.
    + auto.
Qed.

Definition add_entries (fs other : dd) : dd :=
  fold_left (fun acc kv => pd_set (fst kv) (dd_get (fst kv) acc + snd kv) acc) other fs.

Lemma add_entries_nodup other : forall fs, NoDup (pd_keys fs) -> NoDup (pd_keys (add_entries fs other)).
Proof.
  unfold add_entries. induction other as [|[k v] o IH]; simpl; intros fs H; [assumption|].
  apply IH. apply pd_set_nodup. assumption.
Qed.

Lemma dd_get_cons x k v (o : dd) : dd_get x ((k, v) :: o) = if String.eqb x k then v else dd_get x o.
Proof. unfold dd_get. simpl. destruct (String.eqb x k); reflexivity. Qed.

Lemma add_entries_get other : forall fs x, NoDup (pd_keys other) ->
  dd_get x (add_entries fs other) = dd_get x fs + dd_get x other.
Proof.
  unfold add_entries. induction other as [|[k v] o IH]; simpl; intros fs x H.
  - unfold dd_get at 3. simpl. lia.
  - inversion H as [|? ? Hni Hnd]; subst. rewrite IH by assumption. rewrite dd_get_set, dd_get_cons.
    destruct (String.eqb x k) eqn:E.
    + apply String.eqb_eq in E. subst.
      assert (Z : dd_get k o = 0) by (unfold dd_get; rewrite pd_get_none; auto). lia.
    + reflexivity.
Qed.

Lemma counter_iadd_get fs other x : NoDup (pd_keys fs) -> NoDup (pd_keys other) ->
  dd_get x (counter_iadd fs other) = dd_get x fs + dd_get x other.
Proof.
  intros H1 H2. unfold counter_iadd. change (fold_left _ other fs) with (add_entries fs other).
  rewrite dd_get_keep_positive by (apply add_entries_nodup; assumption).
  apply add_entries_get. assumption.
Qed.

Lemma counter_iadd_nodup fs other : NoDup (pd_keys fs) -> NoDup (pd_keys (counter_iadd fs other)).
Proof.
  intros H. unfold counter_iadd. apply filter_nodup_keys.
  change (fold_left _ other fs) with (add_entries fs other). apply add_entries_nodup. assumption.
Qed.

Lemma iter_iadd_nodup n other : forall fs, NoDup (pd_keys fs) -> NoDup (pd_keys (iter_iadd n fs other)).
Proof. induction n; simpl; intros fs H; [assumption|]. apply IHn. apply counter_iadd_nodup. assumption. Qed.

Lemma iter_iadd_get n other : forall fs x, NoDup (pd_keys fs) -> NoDup (pd_keys other) ->
  dd_get x (iter_iadd n fs other) = dd_get x fs + n * dd_get x other.
Proof.
  induction n; simpl; intros fs x H1 H2; [lia|].
  rewrite IHn by (try apply counter_iadd_nodup; assumption).
  rewrite counter_iadd_get by assumption. lia.
Qed.

Lemma existsb_false {A} (f : A -> bool) l : existsb f l = false -> forall x, In x l -> f x = false.
Proof.
  induction l as [|a l IH]; simpl; intros H x Hx; [contradiction|].
  apply orb_false_iff in H. destruct H as [H1 H2]. destruct Hx as [->|Hx]; auto.
Qed.

(* ------------------------------------------------------------------ the invariant *)
Section Invariant.
Variable M : Type.
Variable op : M -> M -> M.
Variable e : M.
Hypothesis op_assoc : forall a b c, op a (op b c) = op (op a b) c.
Hypothesis op_comm : forall a b, op a b = op b a.
Hypothesis op_e_l : forall a, op e a = a.
Variable phi : Q -> M.                       (* how the branching-fraction component is read *)
Hypothesis phi_mul : forall a b, phi (a * b)%Q = op (phi a) (phi b).
Hypothesis phi_1 : phi 1%Q = e.

Variable U : list string.
Hypothesis U_nodup : NoDup U.
Variable F : string -> M.
Variable decays : pdict mode.
Variable keys : list string.
Hypothesis keys_U : forall k, In k keys -> In k U.
Hypothesis decays_wf : forall k m, pd_get k decays = Some m -> NoDup (pd_keys (m_fs m)).
(* F unfolds once at every particle that is substituted *)
Hypothesis F_key : forall k m, In k keys -> pd_get k decays = Some m ->
  F k = op (phi (m_bf m)) (val M op e U F (G (m_fs m))).

Notation V := (val M op e U F).
Notation powM := (pow M op e).

Definition Inv (st : Q * dd) : M := op (phi (fst st)) (V (G (snd st))).

Lemma phi_pow x n : phi (Qpow x n) = powM (phi x) n.
Proof. induction n; simpl; [apply phi_1|]. rewrite phi_mul, IHn. reflexivity. Qed.

Lemma step_key_inv st k : In k keys -> NoDup (pd_keys (snd st)) ->
  Inv (step_key decays st k) = Inv st /\ NoDup (pd_keys (snd (step_key decays st k))).
Proof.
  destruct st as [bf fs]. intros Hk Hnd. unfold step_key.
  destruct (pd_mem k fs); [|split; [reflexivity | assumption]].
  destruct (pd_get k decays) as [m|] eqn:Em; [|split; [reflexivity | assumption]].
  pose proof (decays_wf _ _ Em) as Hm.
  set (n := dd_get k fs).
  set (fs1 := iter_iadd n fs (m_fs m)).
  assert (Hnd1 : NoDup (pd_keys fs1)) by (apply iter_iadd_nodup; assumption).
  split; [|simpl; apply pd_set_nodup; assumption].
  unfold Inv. simpl fst. simpl snd.
  set (g0 := fun p => if String.eqb p k then 0 else dd_get p fs).
  assert (E1 : V (G fs) = op (V g0) (powM (F k) n)).
  { rewrite <- (val_delta M op e op_comm op_e_l U F k n U_nodup (keys_U _ Hk)).
    rewrite <- val_add by assumption. apply val_ext. intros p _. unfold G, g0, n.
    destruct (String.eqb p k) eqn:E; [apply String.eqb_eq in E; subst; lia | lia]. }
  assert (E2 : V (G (pd_set k (dd_get k fs1 - n) fs1)) = op (V g0) (powM (V (G (m_fs m))) n)).
  { rewrite <- val_scale by assumption. rewrite <- val_add by assumption.
    apply val_ext. intros p _. unfold G, g0. rewrite dd_get_set.
    unfold fs1. rewrite !iter_iadd_get by assumption. fold n.
    destruct (String.eqb p k) eqn:E; [apply String.eqb_eq in E; subst; fold n; lia | lia]. }
  rewrite E1, E2, phi_mul, phi_pow. rewrite (F_key _ _ Hk Em).
  rewrite pow_op by assumption.
  set (a := phi bf). set (b := powM (phi (m_bf m)) n). set (c := V g0).
  set (d := powM (V (G (m_fs m))) n).
  (* op (op a b) (op c d) = op a (op c (op b d)) *)
  rewrite <- !op_assoc. f_equal. rewrite (op_swap M op op_assoc op_comm b c d). reflexivity.
Qed.

Lemma fold_keys_inv ks : forall st, (forall k, In k ks -> In k keys) -> NoDup (pd_keys (snd st)) ->
  Inv (fold_left (step_key decays) ks st) = Inv st /\
  NoDup (pd_keys (snd (fold_left (step_key decays) ks st))).
Proof.
  induction ks as [|k ks IH]; simpl; intros st Hks Hnd; [split; [reflexivity | assumption]|].
  destruct (step_key_inv st k (Hks k (or_introl eq_refl)) Hnd) as [E N].
  destruct (IH (step_key decays st k) (fun q H => Hks q (or_intror H)) N) as [E' N'].
  split; [rewrite E', E; reflexivity | assumption].
Qed.

Lemma loop_inv fuel : forall st st', NoDup (pd_keys (snd st)) ->
  loop fuel decays keys st = Some st' ->
  Inv st' = Inv st /\ NoDup (pd_keys (snd st')) /\ (forall k, In k keys -> dd_get k (snd st') = 0).
Proof.
  induction fuel as [|f IH]; simpl; intros st st' Hnd H; [discriminate|].
  destruct (fold_keys_inv keys st (fun k H => H) Hnd) as [E N].
  destruct (any_positive keys (snd (fold_left (step_key decays) keys st))) eqn:A.
  - destruct (IH _ _ N H) as [E' [N' Z]]. split; [rewrite E', E; reflexivity | auto].
  - inversion H; subst. split; [assumption|]. split; [assumption|].
    intros k Hk. unfold any_positive in A.
    pose proof (existsb_false _ _ A k Hk) as B. simpl in B. apply Nat.ltb_ge in B. lia.
Qed.

End Invariant.

(* ------------------------------------------------------------------ keys *)
Lemma remove_first_in x k l : In k (remove_first x l) -> In k l.
Proof.
  induction l as [|y l IH]; simpl; [auto|]. destruct (String.eqb x y); simpl; intuition.
Qed.

Lemma remove_first_in' x k l : In k l -> k <> x -> In k (remove_first x l).
Proof.
  induction l as [|y l IH]; simpl; [auto|]. intros [->|H] Hne.
  - destruct (String.eqb x k) eqn:E; [apply String.eqb_eq in E; congruence | left; reflexivity].
  - destruct (String.eqb x y); [assumption | right; auto].
Qed.

(* the substituted particles are exactly the decaying ones not declared stable *)
Lemma flatten_keys_spec c stable keys : flatten_keys c stable = Some keys ->
  forall k, In k keys <-> (In k (pd_keys (c_decays c)) /\ ~ In k stable).
Proof.
  unfold flatten_keys. set (ks := filter _ _).
  destruct (existsb (String.eqb (c_mother c)) ks) eqn:E; [|discriminate].
  intros H. inversion H; subst; clear H.
  assert (Hm : In (c_mother c) ks).
  { apply existsb_exists in E. destruct E as [y [Hy Ey]]. apply String.eqb_eq in Ey. subst. assumption. }
  assert (Hks : forall k, In k ks <-> In k (pd_keys (c_decays c)) /\ ~ In k stable).
  { intros k. unfold ks. rewrite filter_In. rewrite negb_true_iff. split; intros [A B]; split; auto.
    - intros Hin. assert (existsb (String.eqb k) stable = true); [|congruence].
      apply existsb_exists. exists k. split; [assumption | apply String.eqb_refl].
    - destruct (existsb (String.eqb k) stable) eqn:X; [|reflexivity].
      apply existsb_exists in X. destruct X as [y [Hy Ey]]. apply String.eqb_eq in Ey. subst. contradiction. }
  intros k. rewrite <- Hks. simpl. split.
  - intros [<-|H]; [assumption | eapply remove_first_in; eassumption].
  - intros H. destruct (string_dec k (c_mother c)) as [->|Hne]; [left; reflexivity|].
    right. apply remove_first_in'; assumption.
Qed.

(* ------------------------------------------------------------------ Qc instance *)
Lemma Q2Qc_mul a b : Q2Qc (a * b)%Q = (Q2Qc a * Q2Qc b)%Qc.
Proof.
  apply Qc_is_canon. unfold Qcmult, Q2Qc. cbn [this]. rewrite !Qred_correct. reflexivity.
Qed.

Lemma dd_get_of_map x (fs : dd) : NoDup (pd_keys fs) -> dd_get x (dd_of_map fs) = dd_get x fs.
Proof.
  intros H. unfold dd_of_map.
  rewrite pd_of_list_nodup by (apply filter_nodup_keys; assumption).
  apply (dd_get_keep_positive x fs H).
Qed.

Lemma dd_of_map_nodup (fs : dd) : NoDup (pd_keys fs) -> NoDup (pd_keys (dd_of_map fs)).
Proof.
  intros H. unfold dd_of_map. rewrite pd_of_list_nodup by (apply filter_nodup_keys; assumption).
  apply filter_nodup_keys. assumption.
Qed.

Section Result.
Variable c : chain.
Variable stable : list string.
Variable fuel : nat.
Variable r : mode.
Hypothesis run : flatten fuel c stable = FOk r.
Hypothesis decays_wf : forall k m, pd_get k (c_decays c) = Some m -> NoDup (pd_keys (m_fs m)).
Variable U : list string.
Hypothesis U_nodup : NoDup U.
Hypothesis U_keys : forall k, In k (pd_keys (c_decays c)) -> In k U.

Definition substituted (k : string) : Prop := In k (pd_keys (c_decays c)) /\ ~ In k stable.

Lemma run_inv : exists top keys bf fs,
  pd_get (c_mother c) (c_decays c) = Some top /\ flatten_keys c stable = Some keys /\
  loop fuel (c_decays c) keys (m_bf top, dd_of_map (m_fs top)) = Some (bf, fs) /\
  r = mk_mode bf (dd_of_map fs) (m_meta top).
Proof.
  unfold flatten in run.
  destruct (pd_get (c_mother c) (c_decays c)) as [top|] eqn:E1; [|discriminate].
  destruct (flatten_keys c stable) as [keys|] eqn:E2; [|discriminate].
  destruct (loop fuel (c_decays c) keys (m_bf top, dd_of_map (m_fs top))) as [[bf fs]|] eqn:E3; [|discriminate].
  inversion run. exists top, keys, bf, fs. repeat split; auto.
Qed.

(* branching fraction: product over the tree, for any F that unfolds once at substituted particles
   and is 1 at the leaves *)
Theorem flatten_bf (F : string -> Qc) :
  (forall k m, substituted k -> pd_get k (c_decays c) = Some m ->
       F k = (Q2Qc (m_bf m) * val Qc Qcmult 1%Qc U F (G (m_fs m)))%Qc) ->
  (forall p, ~ substituted p -> F p = 1%Qc) ->
  forall top, pd_get (c_mother c) (c_decays c) = Some top ->
  Q2Qc (m_bf r) = (Q2Qc (m_bf top) * val Qc Qcmult 1%Qc U F (G (m_fs top)))%Qc.
Proof.
  intros Fkey Fleaf top Htop.
  destruct run_inv as [top' [keys [bf [fs [E1 [E2 [E3 E4]]]]]]].
  rewrite Htop in E1. inversion E1; subst top'. clear E1.
  pose proof (flatten_keys_spec _ _ _ E2) as KS.
  pose proof (decays_wf _ _ Htop) as Htopwf.
  destruct (loop_inv Qc Qcmult 1%Qc Qcmult_assoc Qcmult_comm Qcmult_1_l Q2Qc Q2Qc_mul eq_refl
              U U_nodup F (c_decays c) keys
              (fun k Hk => U_keys k (proj1 (proj1 (KS k) Hk)))
              decays_wf
              (fun k m Hk => Fkey k m (proj1 (KS k) Hk))
              fuel (m_bf top, dd_of_map (m_fs top)) (bf, fs) (dd_of_map_nodup _ Htopwf) E3) as [I [N Z]].
  unfold Inv in I. simpl in I. subst r. simpl.
  assert (V1 : val Qc Qcmult 1%Qc U F (G fs) = 1%Qc).
  { apply val_zero; [apply Qcmult_comm | apply Qcmult_1_l|]. intros p _.
    destruct (in_dec string_dec p keys) as [Hin|Hni]; [left; apply Z; assumption|].
    right. apply Fleaf. intros Hs. apply Hni. apply KS. exact Hs. }
  rewrite V1, Qcmult_1_r in I. rewrite I. f_equal.
  apply val_ext. intros p _. unfold G. apply dd_get_of_map. assumption.
Qed.

(* final state: for every particle x of the universe, its multiplicity is the number of leaves x of the tree *)
Theorem flatten_count (x : string) (F : string -> nat) :
  In x U ->
  (forall k m, substituted k -> pd_get k (c_decays c) = Some m ->
       F k = val nat plus 0 U F (G (m_fs m))) ->
  (forall p, ~ substituted p -> F p = if String.eqb p x then 1 else 0) ->
  forall top, pd_get (c_mother c) (c_decays c) = Some top ->
  dd_get x (m_fs r) = val nat plus 0 U F (G (m_fs top)).
Proof.
  intros Hx Fkey Fleaf top Htop.
  destruct run_inv as [top' [keys [bf [fs [E1 [E2 [E3 E4]]]]]]].
  rewrite Htop in E1. inversion E1; subst top'. clear E1.
  pose proof (flatten_keys_spec _ _ _ E2) as KS.
  pose proof (decays_wf _ _ Htop) as Htopwf.
  destruct (loop_inv nat plus 0 Nat.add_assoc Nat.add_comm Nat.add_0_l (fun _ => 0) (fun _ _ => eq_refl) eq_refl
              U U_nodup F (c_decays c) keys
              (fun k Hk => U_keys k (proj1 (proj1 (KS k) Hk)))
              decays_wf
              (fun k m Hk Hm => Fkey k m (proj1 (KS k) Hk) Hm)
              fuel (m_bf top, dd_of_map (m_fs top)) (bf, fs) (dd_of_map_nodup _ Htopwf) E3) as [I [N Z]].
  unfold Inv in I. simpl in I. subst r. simpl.
  rewrite dd_get_of_map by assumption.
  transitivity (val nat plus 0 U F (G fs)).
  - rewrite (val_pick nat plus 0 Nat.add_assoc Nat.add_comm Nat.add_0_l U F (G fs) x U_nodup Hx).
    + rewrite pow_nat. unfold G.
      destruct (in_dec string_dec x keys) as [Hin|Hni].
      * pose proof (Z x Hin) as Zx. simpl in Zx. rewrite Zx. reflexivity.
      * rewrite Fleaf by (intros Hs; apply Hni; apply KS; exact Hs). rewrite String.eqb_refl. lia.
    + intros p _ Hne. destruct (in_dec string_dec p keys) as [Hin|Hni]; [left; apply (Z p Hin)|].
      right. rewrite Fleaf by (intros Hs; apply Hni; apply KS; exact Hs).
      destruct (String.eqb p x) eqn:E; [apply String.eqb_eq in E; contradiction | reflexivity].
  - rewrite I. apply val_ext. intros p _. unfold G. apply dd_get_of_map. assumption.
Qed.

(* the top-level model information is kept *)
Theorem flatten_meta top : pd_get (c_mother c) (c_decays c) = Some top ->
  m_meta r = pd_update default_meta (m_meta top).
Proof.
  intros Htop. destruct run_inv as [top' [keys [bf [fs [E1 [E2 [E3 E4]]]]]]].
  rewrite Htop in E1. inversion E1; subst. reflexivity.
Qed.

End Result.

(* ------------------------------------------------------------------ order independence *)
Definition same_map (d d' : pdict mode) : Prop := forall k, pd_get k d = pd_get k d'.

Lemma same_map_keys d d' k : same_map d d' -> (In k (pd_keys d) <-> In k (pd_keys d')).
Proof.
  intros H. rewrite <- !pd_mem_in. unfold pd_mem. rewrite (H k). reflexivity.
Qed.

Theorem flatten_order_independent c c' stable fuel fuel' r r' U (F : string -> Qc) :
  c_mother c = c_mother c' -> same_map (c_decays c) (c_decays c') ->
  flatten fuel c stable = FOk r -> flatten fuel' c' stable = FOk r' ->
  (forall k m, pd_get k (c_decays c) = Some m -> NoDup (pd_keys (m_fs m))) ->
  NoDup U -> (forall k, In k (pd_keys (c_decays c)) -> In k U) ->
  (forall k m, substituted c stable k -> pd_get k (c_decays c) = Some m ->
       F k = (Q2Qc (m_bf m) * val Qc Qcmult 1%Qc U F (G (m_fs m)))%Qc) ->
  (forall p, ~ substituted c stable p -> F p = 1%Qc) ->
  Q2Qc (m_bf r) = Q2Qc (m_bf r').
Proof.
  intros Hm Hs R R' Hwf Hnd HU Fk Fl.
  destruct (pd_get (c_mother c) (c_decays c)) as [top|] eqn:Et.
  2:{ unfold flatten in R. rewrite Et in R. discriminate. }
  rewrite (flatten_bf c stable fuel r R Hwf U Hnd HU F Fk Fl top Et).
  assert (Et' : pd_get (c_mother c') (c_decays c') = Some top) by (rewrite <- Hm, <- Hs; assumption).
  rewrite (flatten_bf c' stable fuel' r' R' (fun k m H => Hwf k m (eq_trans (Hs k) H)) U Hnd
             (fun k H => HU k (proj2 (same_map_keys _ _ k Hs) H)) F
             (fun k m S H => Fk k m (conj (proj2 (same_map_keys _ _ k Hs) (proj1 S)) (proj2 S)) (eq_trans (Hs k) H))
             (fun p S => Fl p (fun S' => S (conj (proj1 (same_map_keys _ _ p Hs) (proj1 S')) (proj2 S'))))
             top Et').
  reflexivity.
Qed.
