(* ConjProofs.v — charge conjugation: table-level facts by computation on any tables that pass
   the boolean check [tables_ok], and unbounded structural facts about final states / modes. *)
From Coq Require Import String Ascii List Bool ZArith QArith Arith Lia.
From DL Require Import Lib.Val Lib.PyDict Decay.Conj.
Import ListNotations.
Close Scope Q_scope.
Open Scope string_scope.
Open Scope list_scope.

(* ------------------------------------------------------------------ strings *)
Lemma append_inv_head (p a b : string) : (p ++ a)%string = (p ++ b)%string -> a = b.
Proof. induction p; simpl; intros H; [assumption|]. inversion H. auto. Qed.

Lemma append_length (a b : string) : String.length (a ++ b)%string = String.length a + String.length b.
Proof. induction a; simpl; auto. Qed.

Lemma append_inv_tail1 (a b : string) (c : ascii) :
  (a ++ String c "")%string = (b ++ String c "")%string -> a = b.
Proof.
  revert b. induction a as [|x a IH]; intros [|y b] H; simpl in *.
  - reflexivity.
  - inversion H as [[H1 H2]]. destruct b; simpl in H2; discriminate.
  - inversion H as [[H1 H2]]. destruct a; simpl in H2; discriminate.
  - inversion H. f_equal. apply IH. assumption.
Qed.

Lemma wrap_inj a b : wrap a = wrap b -> a = b.
Proof.
  unfold wrap. intros H. apply append_inv_head in H. eapply append_inv_tail1. exact H.
Qed.

Fixpoint sprefix (p s : string) : bool :=
  match p, s with
  | EmptyString, _ => true
  | String a p', String b s' => Ascii.eqb a b && sprefix p' s'
  | _, _ => false
  end.
Definition is_wrap (s : string) : bool := sprefix "ChargeConj(" s.

Lemma is_wrap_wrap n : is_wrap (wrap n) = true.
Proof. reflexivity. Qed.

(* ------------------------------------------------------------------ the boolean table check *)
Definition smem (x : string) (l : list string) : bool := existsb (String.eqb x) l.

Lemma smem_in x l : smem x l = true <-> In x l.
Proof.
  unfold smem. rewrite existsb_exists. split.
  - intros [y [Hy E]]. apply String.eqb_eq in E. subst. assumption.
  - intros H. exists x. split; [assumption | apply String.eqb_refl].
Qed.

Definition evt_names (T : tables) : list string := map fst (t_evt_id T).

(* what the property says about one table name *)
Definition check_evt (T : tables) (n : string) : bool :=
  let c := cc_name T n in
  negb (is_wrap n) &&
  match pd_get n (t_selfconj T) with
  | Some true => String.eqb c n
  | _ =>
      match pd_get n (t_evt_id T) with
      | None => false
      | Some i =>
          match zassoc (- i)%Z (t_id_evt T) with
          | None => String.eqb c (wrap n)                                   (* no known conjugate *)
          | Some m =>
              String.eqb c m && smem c (evt_names T) && String.eqb (cc_name T c) n &&
              match pd_get c (t_evt_id T) with Some j => Z.eqb j (- i) | None => false end
          end
      end
  end.

Definition tables_ok (T : tables) : bool :=
  forallb (check_evt T) (evt_names T) &&
  forallb (fun kv => smem (fst kv) (evt_names T)) (t_invert T).

(* ------------------------------------------------------------------ consequences *)
Section WithTables.
Variable T : tables.
Hypothesis OK : tables_ok T = true.

Lemma ok_check n : In n (evt_names T) -> check_evt T n = true.
Proof.
  intros H. unfold tables_ok in OK. apply andb_true_iff in OK. destruct OK as [A _].
  rewrite forallb_forall in A. auto.
Qed.

Lemma invert_keys n r : pd_get n (t_invert T) = Some r -> In n (evt_names T).
Proof.
  intros H. apply pd_get_some_in in H.
  unfold tables_ok in OK. apply andb_true_iff in OK. destruct OK as [_ B].
  rewrite forallb_forall in B. specialize (B _ H). simpl in B. apply smem_in. assumption.
Qed.

(* names outside the table are wrapped, never altered *)
Theorem cc_unknown n : ~ In n (evt_names T) -> cc_name T n = wrap n.
Proof.
  intros H. unfold cc_name.
  destruct (pd_get n (t_invert T)) eqn:E1.
  - exfalso. apply H. eapply invert_keys. eassumption.
  - rewrite (pd_get_none n (t_evt_id T)); [reflexivity | exact H].
Qed.

(* every table name: wrapped, or conjugate is a table name and conjugating twice is the identity *)
Lemma cc_dichotomy n : In n (evt_names T) ->
  is_wrap n = false /\
  (cc_name T n = wrap n \/ (In (cc_name T n) (evt_names T) /\ cc_name T (cc_name T n) = n)).
Proof.
  intros Hin. pose proof (ok_check n Hin) as C. unfold check_evt in C.
  apply andb_true_iff in C. destruct C as [W C]. apply negb_true_iff in W. split; [assumption|].
  destruct (pd_get n (t_selfconj T)) as [[|]|] eqn:Es.
  - apply String.eqb_eq in C. right. rewrite !C. split; [assumption | reflexivity].
  - destruct (pd_get n (t_evt_id T)) as [i|]; [|discriminate].
    destruct (zassoc (- i)%Z (t_id_evt T)) as [m|].
    + repeat (apply andb_true_iff in C; destruct C as [C ?]).
      right. split; [apply smem_in; assumption | apply String.eqb_eq; assumption].
    + left. apply String.eqb_eq. assumption.
  - destruct (pd_get n (t_evt_id T)) as [i|]; [|discriminate].
    destruct (zassoc (- i)%Z (t_id_evt T)) as [m|].
    + repeat (apply andb_true_iff in C; destruct C as [C ?]).
      right. split; [apply smem_in; assumption | apply String.eqb_eq; assumption].
    + left. apply String.eqb_eq. assumption.
Qed.

Lemma in_dec_names n : {In n (evt_names T)} + {~ In n (evt_names T)}.
Proof. apply in_dec. apply string_dec. Qed.

Lemma cc_wrap_or_name n :
  cc_name T n = wrap n \/ (In n (evt_names T) /\ In (cc_name T n) (evt_names T) /\ cc_name T (cc_name T n) = n).
Proof.
  destruct (in_dec_names n) as [Hin|Hni].
  - destruct (cc_dichotomy n Hin) as [_ [H|[H1 H2]]]; auto.
  - left. apply cc_unknown. assumption.
Qed.

Lemma name_not_wrap n : In n (evt_names T) -> is_wrap n = false.
Proof. intros H. apply (cc_dichotomy n H). Qed.

(* conjugation is injective on ALL strings *)
Theorem cc_injective a b : cc_name T a = cc_name T b -> a = b.
Proof.
  intros H.
  destruct (cc_wrap_or_name a) as [Ha|[Ha1 [Ha2 Ha3]]];
  destruct (cc_wrap_or_name b) as [Hb|[Hb1 [Hb2 Hb3]]].
  - rewrite Ha, Hb in H. apply wrap_inj. assumption.
  - exfalso. rewrite Ha in H. pose proof (name_not_wrap _ Hb2) as W. rewrite <- H in W.
    rewrite is_wrap_wrap in W. discriminate.
  - exfalso. rewrite Hb in H. pose proof (name_not_wrap _ Ha2) as W. rewrite H in W.
    rewrite is_wrap_wrap in W. discriminate.
  - rewrite <- Ha3, <- Hb3. rewrite H. reflexivity.
Qed.

(* the table-level statement of the property, for every name of the (regenerated) table *)
Theorem cc_table n : In n (evt_names T) ->
  match pd_get n (t_selfconj T) with
  | Some true => cc_name T n = n
  | _ =>
      exists i, pd_get n (t_evt_id T) = Some i /\
      match zassoc (- i)%Z (t_id_evt T) with
      | None => cc_name T n = wrap n
      | Some m => cc_name T n = m /\ pd_get (cc_name T n) (t_evt_id T) = Some (- i)%Z /\
                  cc_name T (cc_name T n) = n
      end
  end.
Proof.
  intros Hin. pose proof (ok_check n Hin) as C. unfold check_evt in C.
  apply andb_true_iff in C. destruct C as [_ C].
  destruct (pd_get n (t_selfconj T)) as [[|]|].
  - apply String.eqb_eq. assumption.
  - destruct (pd_get n (t_evt_id T)) as [i|]; [|discriminate]. exists i. split; [reflexivity|].
    destruct (zassoc (- i)%Z (t_id_evt T)) as [m|].
    + repeat (apply andb_true_iff in C; destruct C as [C ?]).
      apply String.eqb_eq in C. split; [assumption|]. split.
      * destruct (pd_get (cc_name T n) (t_evt_id T)); [|discriminate].
        f_equal. apply Z.eqb_eq. assumption.
      * apply String.eqb_eq. assumption.
    + apply String.eqb_eq. assumption.
  - destruct (pd_get n (t_evt_id T)) as [i|]; [|discriminate]. exists i. split; [reflexivity|].
    destruct (zassoc (- i)%Z (t_id_evt T)) as [m|].
    + repeat (apply andb_true_iff in C; destruct C as [C ?]).
      apply String.eqb_eq in C. split; [assumption|]. split.
      * destruct (pd_get (cc_name T n) (t_evt_id T)); [|discriminate].
        f_equal. apply Z.eqb_eq. assumption.
      * apply String.eqb_eq. assumption.
    + apply String.eqb_eq. assumption.
Qed.

End WithTables.

(* ------------------------------------------------------------------ final states *)
Definition wf_dd (d : dd) : Prop := NoDup (pd_keys d) /\ Forall (fun kv => 0 < snd kv) d.

Lemma pd_update_fresh {V} (d e : pdict V) :
  NoDup (pd_keys d ++ pd_keys e) -> pd_update d e = d ++ e.
Proof.
  revert d. induction e as [|[k v] e IH]; intros d H; simpl.
  - rewrite app_nil_r. reflexivity.
  - unfold pd_update in *. simpl.
    assert (Hk : ~ In k (pd_keys d)).
    { apply NoDup_remove_2 in H. intros Hin. apply H. apply in_or_app. left. assumption. }
    rewrite pd_set_fresh by assumption. rewrite IH.
    + rewrite <- app_assoc. reflexivity.
    + unfold pd_keys in *. rewrite map_app. simpl. rewrite <- app_assoc. simpl. exact H.
Qed.

Lemma pd_of_list_nodup {V} (l : pdict V) : NoDup (pd_keys l) -> pd_of_list l = l.
Proof. intros H. unfold pd_of_list. rewrite pd_update_fresh; [reflexivity | exact H]. Qed.

Lemma filter_all {A} (f : A -> bool) l : Forall (fun x => f x = true) l -> filter f l = l.
Proof. induction 1; simpl; [reflexivity|]. rewrite H. f_equal. assumption. Qed.

Lemma NoDup_map_inj {A B} (f : A -> B) l : (forall a b, f a = f b -> a = b) -> NoDup l -> NoDup (map f l).
Proof.
  intros Hinj. induction 1; simpl; constructor; [|assumption].
  intros Hin. apply in_map_iff in Hin. destruct Hin as [y [E Hy]]. apply Hinj in E. subst. contradiction.
Qed.

Section DD.
Variable cc : string -> string.
Hypothesis cc_inj : forall a b, cc a = cc b -> a = b.

Definition cc_entry (kv : string * nat) : string * nat := (cc (fst kv), snd kv).

Lemma dd_cc_map d : wf_dd d -> dd_cc cc d = map cc_entry d.
Proof.
  intros [Hnd Hpos]. unfold dd_cc, dd_of_map.
  assert (K : pd_keys (map cc_entry d) = map cc (pd_keys d)).
  { unfold pd_keys. rewrite !map_map. reflexivity. }
  assert (Hnd' : NoDup (pd_keys (map cc_entry d))).
  { rewrite K. apply NoDup_map_inj; assumption. }
  change (map (fun kv => (cc (fst kv), snd kv)) d) with (map cc_entry d).
  rewrite (pd_of_list_nodup (map cc_entry d)) by assumption.
  rewrite filter_all.
  - apply pd_of_list_nodup. assumption.
  - rewrite Forall_forall in *. intros x Hx. apply in_map_iff in Hx. destruct Hx as [y [<- Hy]].
    simpl. apply Nat.ltb_lt. apply Hpos. assumption.
Qed.

(* number of particles preserved *)
Theorem dd_cc_total d : wf_dd d -> dd_total (dd_cc cc d) = dd_total d.
Proof.
  intros H. rewrite dd_cc_map by assumption. clear H.
  induction d as [|[k n] d IH]; simpl; [reflexivity|]. rewrite IH. reflexivity.
Qed.

(* each particle is conjugated with its multiplicity *)
Theorem dd_cc_get d n : wf_dd d -> dd_get (cc n) (dd_cc cc d) = dd_get n d.
Proof.
  intros H. rewrite dd_cc_map by assumption. clear H. unfold dd_get.
  induction d as [|[k m] d IH]; simpl; [reflexivity|].
  destruct (String.eqb n k) eqn:E.
  - apply String.eqb_eq in E. subst. rewrite String.eqb_refl. reflexivity.
  - destruct (String.eqb (cc n) (cc k)) eqn:E2.
    + apply String.eqb_eq in E2. apply cc_inj in E2. subst. rewrite String.eqb_refl in E. discriminate.
    + exact IH.
Qed.

(* nothing else appears: a name that is not a conjugate has count 0 *)
Theorem dd_cc_get_other d x : wf_dd d -> (forall n, x <> cc n) -> dd_get x (dd_cc cc d) = 0.
Proof.
  intros H Hx. rewrite dd_cc_map by assumption. clear H. unfold dd_get.
  induction d as [|[k m] d IH]; simpl; [reflexivity|].
  destruct (String.eqb x (cc k)) eqn:E.
  - apply String.eqb_eq in E. exfalso. eapply Hx. eassumption.
  - exact IH.
Qed.

Theorem dd_cc_wf d : wf_dd d -> wf_dd (dd_cc cc d).
Proof.
  intros H. rewrite dd_cc_map by assumption. destruct H as [Hnd Hpos]. split.
  - unfold pd_keys. rewrite map_map. simpl. rewrite <- map_map. apply NoDup_map_inj; assumption.
  - rewrite Forall_forall in *. intros x Hx. apply in_map_iff in Hx. destruct Hx as [y [<- Hy]].
    simpl. apply Hpos. assumption.
Qed.

(* ------------------------------------------------------------------ decay modes *)
Lemma mk_mode_shape info :
  exists a b rest, pd_update default_meta info = ("model", a) :: ("model_params", b) :: rest /\
    NoDup (pd_keys (("model", a) :: ("model_params", b) :: rest)).
Proof.
  unfold pd_update.
  assert (G : forall (acc : pdict val),
     (exists a b rest, acc = ("model", a) :: ("model_params", b) :: rest /\ NoDup (pd_keys acc)) ->
     exists a b rest, fold_left (fun acc kv => pd_set (fst kv) (snd kv) acc) info acc =
                      ("model", a) :: ("model_params", b) :: rest /\
                      NoDup (pd_keys (("model", a) :: ("model_params", b) :: rest))).
  { induction info as [|[k v] info IH]; intros acc [a [b [rest [E Hnd]]]]; simpl.
    - exists a, b, rest. subst. auto.
    - apply IH. subst acc. simpl.
      destruct (String.eqb k "model") eqn:E1.
      + apply String.eqb_eq in E1. subst k. exists v, b, rest. split; [reflexivity | exact Hnd].
      + destruct (String.eqb k "model_params") eqn:E2.
        * apply String.eqb_eq in E2. subst k. exists a, v, rest. split; [reflexivity | exact Hnd].
        * exists a, b, (pd_set k v rest). split; [reflexivity|].
          pose proof (pd_set_nodup k v _ Hnd) as N. simpl in N. rewrite E1, E2 in N. exact N. }
  apply G. exists (VStr ""), (VStr ""), []. split; [reflexivity|].
  simpl. repeat constructor; simpl; intuition discriminate.
Qed.

Lemma update_default_idem info :
  pd_update default_meta (pd_update default_meta info) = pd_update default_meta info.
Proof.
  destruct (mk_mode_shape info) as [a [b [rest [E Hnd]]]]. rewrite E.
  unfold pd_update at 1. simpl.
  change (fold_left (fun acc kv => pd_set (fst kv) (snd kv) acc) rest [("model", a); ("model_params", b)])
    with (pd_update [("model", a); ("model_params", b)] rest).
  rewrite pd_update_fresh; [reflexivity | exact Hnd].
Qed.

(* conjugating a mode keeps the branching fraction and ALL metadata, and conjugates the final state *)
Theorem mode_cc_spec bf fs info :
  let m := mk_mode bf fs info in
  m_bf (mode_cc cc m) = m_bf m /\ m_meta (mode_cc cc m) = m_meta m /\ m_fs (mode_cc cc m) = dd_cc cc (m_fs m).
Proof.
  simpl. repeat split. apply update_default_idem.
Qed.

End DD.

(* dd_of_list produces well-formed final states *)
Lemma pd_set_pos k v (d : dd) :
  Forall (fun kv => 0 < snd kv) d -> 0 < v -> Forall (fun kv : string * nat => 0 < snd kv) (pd_set k v d).
Proof.
  intros H Hv. induction d as [|[k' n] d IH]; simpl.
  - repeat constructor. assumption.
  - inversion H; subst. destruct (String.eqb k k'); constructor; auto.
Qed.

Lemma dd_of_list_wf l : wf_dd (dd_of_list l).
Proof.
  unfold dd_of_list.
  assert (G : forall acc, wf_dd acc -> wf_dd (fold_left (fun d x => pd_set x (S (dd_get x d)) d) l acc)).
  { induction l as [|x l IH]; intros acc H; simpl; [assumption|]. apply IH.
    destruct H as [Hnd Hpos]. split; [apply pd_set_nodup; assumption|].
    apply pd_set_pos; [assumption | lia]. }
  apply G. split; constructor.
Qed.

(* ------------------------------------------------------------------ PDG-style names *)
Definition pdg_names (T : tables) : list string := map fst (t_pdg_evt T).

Definition pdg_id (T : tables) (n : string) : option Z :=
  match pd_get n (t_pdg_evt T) with
  | Some e => pd_get e (t_evt_id T)
  | None => None
  end.

Definition check_pdg (T : tables) (n : string) : bool :=
  let c := cc_name_pdg T n in
  String.eqb c (wrap n) ||
  (smem c (pdg_names T) && String.eqb (cc_name_pdg T c) n &&
   match pdg_id T n, pdg_id T c with
   | Some i, Some j => Z.eqb j (- i) || (Z.eqb j i && String.eqb c n)
   | _, _ => false
   end).

Definition pdg_tables_ok (T : tables) : bool := forallb (check_pdg T) (pdg_names T).

Theorem cc_pdg_table T n : pdg_tables_ok T = true -> In n (pdg_names T) ->
  cc_name_pdg T n = wrap n \/
  (In (cc_name_pdg T n) (pdg_names T) /\ cc_name_pdg T (cc_name_pdg T n) = n /\
   exists i j, pdg_id T n = Some i /\ pdg_id T (cc_name_pdg T n) = Some j /\
               (j = (- i)%Z \/ (j = i /\ cc_name_pdg T n = n))).
Proof.
  intros OK Hin. unfold pdg_tables_ok in OK. rewrite forallb_forall in OK. specialize (OK n Hin).
  unfold check_pdg in OK. apply orb_true_iff in OK. destruct OK as [W|C].
  - left. apply String.eqb_eq. assumption.
  - right. repeat (apply andb_true_iff in C; destruct C as [C ?]).
    split; [apply smem_in; assumption|]. split; [apply String.eqb_eq; assumption|].
    destruct (pdg_id T n) as [i|]; [|discriminate].
    destruct (pdg_id T (cc_name_pdg T n)) as [j|]; [|discriminate].
    exists i, j. repeat split; try reflexivity.
    match goal with H : _ || _ = true |- _ => apply orb_true_iff in H; destruct H as [H|H] end.
    + left. apply Z.eqb_eq. assumption.
    + right. apply andb_true_iff in H. destruct H as [A B]. split; [apply Z.eqb_eq | apply String.eqb_eq]; assumption.
Qed.

Theorem cc_pdg_unknown T n : ~ In n (pdg_names T) -> cc_name_pdg T n = wrap n.
Proof.
  intros H. unfold cc_name_pdg. rewrite (pd_get_none n (t_pdg_evt T)); [reflexivity | exact H].
Qed.
