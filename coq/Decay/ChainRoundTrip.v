(* ChainRoundTrip.v — DecayChain.from_dict (to_dict c): the nested dictionary written by to_dict is read back by
   _build_decay_modes into the sub-dictionary of the chain's decays that is reachable from the mother, every mode
   re-normalised by the DecayMode round trip (mode_of_cm . mode_to_cm — observationally the identity, C11_mode_roundtrip);
   a decaying particle that occurs several times is accepted (its modes are equal) — the repair of finding F4. *)
From Coq Require Import String List Bool ZArith QArith Arith Lia.
From DL Require Import Fmt.DescFormat.
From DL Require Import Lib.Val Lib.PyDict Lib.Sort Decay.Conj Decay.ChainDict Dec.Tables Decay.Flatten Decay.ChainClass.
Import ListNotations.
Close Scope Q_scope.
Open Scope string_scope.

(* the mode from_dict makes of what to_dict wrote for md *)
Definition RT (md : mode) : mode :=
  mk_mode (m_bf md) (dd_of_list (dd_to_list (m_fs md))) (meta_out (m_meta md)).

Lemma leq_refl (x : list string) :
  (fix leq (x y : list string) : bool :=
     match x, y with
     | [], [] => true
     | p :: x', q :: y' => String.eqb p q && leq x' y'
     | _, _ => false
     end) x x = true.
Proof. induction x as [|p x IH]; [reflexivity|]. rewrite String.eqb_refl. exact IH. Qed.

Lemma meq_refl (x : pdict val) :
  (fix meq (x y : pdict val) : bool :=
     match x, y with
     | [], [] => true
     | (k, v) :: x', (k', v') :: y' => String.eqb k k' && String.eqb (show v) (show v') && meq x' y'
     | _, _ => false
     end) x x = true.
Proof. induction x as [|[k v] x IH]; [reflexivity|]. rewrite !String.eqb_refl. exact IH. Qed.

Lemma vmode_eq_refl m : vmode_eq m m = true.
Proof.
  unfold vmode_eq. rewrite leq_refl, meq_refl.
  assert (E : Qeq_bool (m_bf m) (m_bf m) = true) by (apply Qeq_bool_iff; reflexivity). rewrite E. reflexivity.
Qed.

Section RT.
Variable decays : pdict mode.

(* everything registered so far is the round trip of the chain's own mode of that particle *)
Definition Inv (acc : pdict mode) : Prop :=
  forall p md', pd_get p acc = Some md' ->
    exists md, pd_get p decays = Some md /\ md' = RT md
               /\ forall x, In x (dd_to_list (m_fs md)) -> pd_mem x decays = true -> pd_mem x acc = true.
Definition extends (acc acc' : pdict mode) : Prop := forall p, pd_mem p acc = true -> pd_mem p acc' = true.

Lemma pd_mem_get {A} p (d : pdict A) : pd_mem p d = true <-> exists v, pd_get p d = Some v.
Proof.
  unfold pd_mem. destruct (pd_get p d); split; intro H; try discriminate; eauto. destruct H; discriminate.
Qed.

Lemma pd_mem_set {A} p k (v : A) d : pd_mem p (pd_set k v d) = true <-> (p = k \/ pd_mem p d = true).
Proof.
  destruct (String.eqb_spec k p) as [->|Hne].
  - split; [auto|]. intros _. apply pd_mem_get. exists v. apply pd_get_set_same.
  - rewrite !pd_mem_get. rewrite (pd_get_set_other k p v d Hne). split; [auto|]. intros [E|H]; [congruence|exact H].
Qed.

Definition sub_fs (f : nat) (names : list string) : option (list fsp) :=
  mapM (fun d => if pd_mem d decays
                 then match chain_to_dict f decays d with Some c => Some (FSub c) | None => None end
                 else Some (FName d)) names.

Lemma names_of_sub f names fs : sub_fs f names = Some fs -> names_of fs = names.
Proof.
  unfold names_of. revert fs. induction names as [|d names IH]; intros fs H; cbn in H.
  - injection H as <-. reflexivity.
  - unfold sub_fs in IH. destruct (pd_mem d decays).
    + destruct (chain_to_dict f decays d) as [c|] eqn:Ec; [|discriminate].
      destruct (mapM _ names) as [r|]; [|discriminate]. injection H as <-. cbn [map]. rewrite (IH r eq_refl). f_equal.
      destruct f; [discriminate|]. cbn in Ec. destruct (pd_get d decays); [|discriminate]. destruct (mapM _ _); [|discriminate].
      injection Ec as <-. reflexivity.
    + destruct (mapM _ names) as [r|]; [|discriminate]. injection H as <-. cbn [map]. rewrite (IH r eq_refl). reflexivity.
Qed.

Definition go_modes := fix go (acc : pdict mode) (l : list fsp) : option (pdict mode) :=
  match l with
  | [] => Some acc
  | FName _ :: r => go acc r
  | FSub c' :: r => match build_modes acc c' with Some acc' => go acc' r | None => None end
  end.

Lemma build_unfold acc m bf fs meta :
  build_modes acc (CD m [CM bf fs meta]) =
  match go_modes acc fs with
  | None => None
  | Some acc' =>
      let new_mode := mode_of_cm (CM bf fs meta) in
      match pd_get m acc' with
      | Some old => if vmode_eq old new_mode then Some (pd_set m new_mode acc') else None
      | None => Some (pd_set m new_mode acc')
      end
  end.
Proof. reflexivity. Qed.

(* the statement for one sub-chain *)
Definition good (f : nat) : Prop := forall m d, chain_to_dict f decays m = Some d ->
  forall acc, Inv acc -> exists acc', build_modes acc d = Some acc' /\ Inv acc' /\ extends acc acc' /\ pd_mem m acc' = true.

Lemma go_good f : good f -> forall names fs, sub_fs f names = Some fs ->
  forall acc, Inv acc -> exists acc', go_modes acc fs = Some acc' /\ Inv acc' /\ extends acc acc'
                                      /\ forall x, In x names -> pd_mem x decays = true -> pd_mem x acc' = true.
Proof.
  intros Hg names. induction names as [|d names IH]; intros fs H acc HI; cbn in H.
  - injection H as <-. exists acc. cbn. repeat split; [exact HI|intros p Hp; exact Hp|intros x []].
  - unfold sub_fs in IH. destruct (pd_mem d decays) eqn:Hd.
    + destruct (chain_to_dict f decays d) as [c|] eqn:Ec; [|discriminate].
      destruct (mapM _ names) as [r|] eqn:Er; [|discriminate]. injection H as <-.
      destruct (Hg _ _ Ec acc HI) as [acc1 [B1 [I1 [X1 M1]]]].
      destruct (IH r eq_refl acc1 I1) as [acc2 [B2 [I2 [X2 M2]]]].
      exists acc2. cbn. rewrite B1. repeat split; [exact B2|exact I2|intros p Hp; apply X2, X1, Hp|].
      intros x [->|Hx] Hm; [apply X2, M1|apply M2; assumption].
    + destruct (mapM _ names) as [r|] eqn:Er; [|discriminate]. injection H as <-.
      destruct (IH r eq_refl acc HI) as [acc2 [B2 [I2 [X2 M2]]]].
      exists acc2. cbn. repeat split; [exact B2|exact I2|exact X2|].
      intros x [->|Hx] Hm; [congruence|apply M2; assumption].
Qed.

Lemma all_good : forall f, good f.
Proof.
  induction f as [|f IH]; intros m d H acc HI; [discriminate|].
  cbn in H. destruct (pd_get m decays) as [md|] eqn:Em; [|discriminate].
  fold (sub_fs f (dd_to_list (m_fs md))) in H.
  destruct (sub_fs f (dd_to_list (m_fs md))) as [fs|] eqn:Es; [|discriminate]. injection H as <-.
  destruct (go_good f IH _ _ Es acc HI) as [acc1 [B1 [I1 [X1 D1]]]].
  rewrite build_unfold. fold go_modes. rewrite B1. cbn zeta.
  assert (En : mode_of_cm (CM (m_bf md) fs (meta_out (m_meta md))) = RT md).
  { unfold mode_of_cm, RT. rewrite (names_of_sub _ _ _ Es). reflexivity. }
  rewrite En.
  assert (I2 : Inv (pd_set m (RT md) acc1)).
  { intros p md' Hp. destruct (String.eqb_spec m p) as [<-|Hne].
    - rewrite pd_get_set_same in Hp. injection Hp as <-. exists md. split; [exact Em|split; [reflexivity|]].
      intros x Hx Hm. apply pd_mem_set. right. apply D1; assumption.
    - rewrite (pd_get_set_other m p _ _ Hne) in Hp. destruct (I1 _ _ Hp) as [md0 [E0 [E1 C0]]].
      exists md0. split; [exact E0|split; [exact E1|]]. intros x Hx Hm. apply pd_mem_set. right. apply C0; assumption. }
  assert (X2 : extends acc (pd_set m (RT md) acc1)).
  { intros p Hp. apply pd_mem_set. right. apply X1, Hp. }
  assert (M2 : pd_mem m (pd_set m (RT md) acc1) = true) by (apply pd_mem_set; left; reflexivity).
  destruct (pd_get m acc1) as [old|] eqn:Eo.
  - destruct (I1 _ _ Eo) as [md0 [E0 [-> _]]]. rewrite Em in E0. injection E0 as <-.
    rewrite vmode_eq_refl. eexists. repeat split; eauto.
  - eexists. repeat split; eauto.
Qed.

(* from_dict (to_dict chain) *)
Theorem chain_roundtrip fuel m d : chain_to_dict fuel decays m = Some d ->
  exists decays', chain_from_dict d = COk {| c_mother := m; c_decays := decays' |}
    /\ (forall p md', pd_get p decays' = Some md' ->
          exists md, pd_get p decays = Some md /\ md' = RT md
                     /\ forall x, In x (dd_to_list (m_fs md)) -> pd_mem x decays = true -> pd_mem x decays' = true)
    /\ pd_mem m decays' = true.
Proof.
  intro H. assert (I0 : Inv []) by (intros p md' E; discriminate).
  destruct (all_good fuel m d H [] I0) as [acc [B [HI [_ Hm]]]].
  exists acc. unfold chain_from_dict. rewrite B.
  assert (Emd : cd_mother d = m).
  { destruct fuel; [discriminate|]. cbn in H. destruct (pd_get m decays); [|discriminate]. destruct (mapM _ _); [|discriminate]. injection H as <-. reflexivity. }
  rewrite Emd, Hm. repeat split; assumption.
Qed.
End RT.

(* RT is the DecayMode round trip of C11_mode_roundtrip *)
Lemma RT_mode_roundtrip md : RT md = mode_of_cm (mode_to_cm md).
Proof.
  unfold RT, mode_of_cm, mode_to_cm, names_of. rewrite map_map. cbn. rewrite map_id. reflexivity.
Qed.
