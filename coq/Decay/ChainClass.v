(* ChainClass.v — DecayMode / DecayChain <-> dictionary conversions
   (src/decaylanguage/decay/decay.py: DecayMode.to_dict/from_dict 264-306,386-406;
    _build_decay_modes 469-570; DecayChain.from_dict 780-796, to_dict 933-970, to_string 829-847)
   and the DaughtersDict constructors (39-176).  No proofs here. *)
From Coq Require Import String Ascii List Bool ZArith QArith Arith.
From DL Require Import Lib.Val Lib.PyDict Lib.Sort Fmt.DescFormat Decay.Conj Decay.Flatten Decay.ChainDict Dec.Tables.
Import ListNotations.
Close Scope Q_scope.
Open Scope string_scope.

(* ------------------------------------------------------------------ DaughtersDict constructors *)
Definition is_ws (c : ascii) : bool :=
  let n := nat_of_ascii c in
  (Nat.eqb n 32) || (Nat.leb 9 n && Nat.leb n 13) || (Nat.leb 28 n && Nat.leb n 31).

(* str.split() on ASCII whitespace *)
Fixpoint split_ws_aux (s : string) (cur : list ascii) (acc : list string) : list string :=
  match s with
  | EmptyString => rev (match cur with [] => acc | _ => str_of_rev cur :: acc end)
  | String c r =>
      if is_ws c then split_ws_aux r [] (match cur with [] => acc | _ => str_of_rev cur :: acc end)
      else split_ws_aux r (c :: cur) acc
  end.
Definition split_ws (s : string) : list string := split_ws_aux s [] [].

Definition dd_of_string (s : string) : dd := dd_of_list (split_ws s).

(* ------------------------------------------------------------------ DecayMode <-> dict *)
(* to_dict: {"bf":..., "fs": sorted names, plus the metadata items}, model_params None -> "" *)
Definition meta_out (meta : pdict val) : pdict val :=
  match pd_get "model_params" meta with
  | Some VNone => pd_set "model_params" (VStr "") meta
  | _ => meta
  end.

Definition mode_to_cm (m : mode) : cmode :=
  CM (m_bf m) (map FName (dd_to_list (m_fs m))) (meta_out (m_meta m)).

(* from_dict on a dict without sub-decays: cls(keyword arguments from dm) *)
Definition names_of (fs : list fsp) : list string :=
  map (fun f => match f with FName n => n | FSub c => cd_mother c end) fs.

Definition mode_of_cm (m : cmode) : mode :=
  match m with CM bf fs meta => mk_mode bf (dd_of_list (names_of fs)) meta end.

(* ------------------------------------------------------------------ DecayChain.to_dict *)
Fixpoint chain_to_dict (fuel : nat) (decays : pdict mode) (m : string) : option cdict :=
  match fuel with
  | 0 => None
  | S f =>
      match pd_get m decays with
      | None => None
      | Some md =>
          match mapM (fun d => if pd_mem d decays
                               then match chain_to_dict f decays d with Some c => Some (FSub c) | None => None end
                               else Some (FName d)) (dd_to_list (m_fs md)) with
          | None => None
          | Some fs => Some (CD m [CM (m_bf md) fs (meta_out (m_meta md))])
          end
      end
  end.

(* ------------------------------------------------------------------ _build_decay_modes *)
Definition vmode_eq (a b : mode) : bool :=
  (* comparison of two modes through their to_dict(): bf, sorted daughters, metadata *)
  Qeq_bool (m_bf a) (m_bf b) &&
  (fix leq (x y : list string) : bool :=
     match x, y with
     | [], [] => true
     | p :: x', q :: y' => String.eqb p q && leq x' y'
     | _, _ => false
     end) (dd_to_list (m_fs a)) (dd_to_list (m_fs b)) &&
  (fix meq (x y : pdict val) : bool :=
     match x, y with
     | [], [] => true
     | (k, v) :: x', (k', v') :: y' => String.eqb k k' && String.eqb (show v) (show v') && meq x' y'
     | _, _ => false
     end) (meta_out (m_meta a)) (meta_out (m_meta b)).

(* result: None = RuntimeError "Input is not a single decay chain!" (or malformed input) *)
Fixpoint build_modes (acc : pdict mode) (c : cdict) : option (pdict mode) :=
  match c with
  | CD mother modes =>
      match modes with
      | [] => Some acc                              (* no decay mode: nothing registered *)
      | [CM bf fs meta] =>
          (* sub-decays first, left to right *)
          match (fix go (acc : pdict mode) (l : list fsp) : option (pdict mode) :=
                   match l with
                   | [] => Some acc
                   | FName _ :: r => go acc r
                   | FSub c' :: r => match build_modes acc c' with Some acc' => go acc' r | None => None end
                   end) acc fs with
          | None => None
          | Some acc' =>
              let new_mode := mode_of_cm (CM bf fs meta) in
              match pd_get mother acc' with
              | Some old => if vmode_eq old new_mode then Some (pd_set mother new_mode acc') else None
              | None => Some (pd_set mother new_mode acc')
              end
          end
      | _ => None                                   (* two decay modes for one particle *)
      end
  end.

Inductive cres := COk (c : chain) | CErr (e : string).

Definition chain_from_dict (c : cdict) : cres :=
  match build_modes [] c with
  | None => CErr "RuntimeError"
  | Some decays => if pd_mem (cd_mother c) decays then COk {| c_mother := cd_mother c; c_decays := decays |}
                   else CErr "RuntimeError"
  end.

(* ------------------------------------------------------------------ to_string *)
Definition chain_to_string (cfg : string * string) (c : chain) : val :=
  match chain_to_dict 100 (c_decays c) (c_mother c) with
  | None => VErr "OutOfFuel"
  | Some d => match expand cfg [] true d with
              | [s] => VStr s
              | _ => VErr "AssertionError"
              end
  end.

Definition vchain (c : chain) : val :=
  VList [VStr (c_mother c);
         VList (map (fun kv => VList [VStr (fst kv); vmode (snd kv)]) (c_decays c))].
Definition vcres (r : cres) : val := match r with COk c => vchain c | CErr e => VErr e end.
