(* Conj.v — model of decaylanguage.utils.particleutils.charge_conjugate_name
   (src/decaylanguage/utils/particleutils.py:25-70) over explicit particle tables, and of
   DaughtersDict.charge_conjugate / DecayMode.charge_conjugate (decay/decay.py:121-150,408-434).
   The tables are a record so that the regenerated data (Gen/GenParticles.v) is plugged in
   from outside; nothing here depends on their contents. *)
From Coq Require Import String Ascii List Bool ZArith QArith Arith.
From DL Require Import Lib.Val Lib.PyDict Lib.Sort.
Import ListNotations.
Close Scope Q_scope.
Open Scope string_scope.

Record tables := {
  t_evt_id : list (string * Z);        (* EvtGenName2PDGIDBiMap, name -> id *)
  t_id_evt : list (Z * string);        (* same, id -> name *)
  t_invert : list (string * string);   (* Particle.from_evtgen_name(n).invert().evtgen_name, when it does not raise *)
  t_selfconj : list (string * bool);   (* Particle.from_evtgen_name(n).is_self_conjugate, when it does not raise *)
  t_pdg_evt : list (string * string);  (* PDG2EvtGenNameMap *)
  t_evt_pdg : list (string * string)   (* EvtGen2PDGNameMap *)
}.

Fixpoint zassoc {V} (k : Z) (l : list (Z * V)) : option V :=
  match l with
  | [] => None
  | (k', v) :: r => if Z.eqb k k' then Some v else zassoc k r
  end.

Definition wrap (n : string) : string := "ChargeConj(" ++ n ++ ")".

(* charge_conjugate_name(name)  — EvtGen names *)
Definition cc_name (T : tables) (n : string) : string :=
  match pd_get n (t_invert T) with
  | Some r => r                                         (* database inversion *)
  | None =>
      match pd_get n (t_evt_id T) with
      | Some i =>
          match zassoc (- i)%Z (t_id_evt T) with
          | Some r => r                                 (* bi-map negation *)
          | None => wrap n
          end
      | None => wrap n
      end
  end.

(* charge_conjugate_name(name, pdg_name=True) *)
Definition cc_name_pdg (T : tables) (n : string) : string :=
  match pd_get n (t_pdg_evt T) with
  | None => wrap n
  | Some e =>
      match pd_get (cc_name T e) (t_evt_pdg T) with
      | Some p => p
      | None => wrap n
      end
  end.

Definition cc_any (T : tables) (pdg : bool) (n : string) : string :=
  if pdg then cc_name_pdg T n else cc_name T n.

(* ------------------------------------------------------------------ DaughtersDict *)
(* A Counter: insertion-ordered name -> count.  The constructor from a mapping keeps the
   entries with a positive count. *)
Definition dd := pdict nat.

Definition dd_get (k : string) (d : dd) : nat := match pd_get k d with Some n => n | None => 0 end.
Definition dd_total (d : dd) : nat := fold_right (fun kv acc => snd kv + acc) 0 d.

(* DaughtersDict(<dict>) : {k: v for k, v in d.items() if v > 0} *)
Definition dd_of_map (l : list (string * nat)) : dd :=
  pd_of_list (filter (fun kv => Nat.ltb 0 (snd kv)) l).

Definition dd_of_zmap (l : list (string * Z)) : dd :=
  pd_of_list (map (fun kv => (fst kv, Z.to_nat (snd kv))) (filter (fun kv => Z.ltb 0 (snd kv)) l)).

(* DaughtersDict(<list of names>) : Counter counting in first-occurrence order *)
Definition dd_of_list (l : list string) : dd :=
  fold_left (fun d x => pd_set x (S (dd_get x d)) d) l [].

(* charge_conjugate: a dict comprehension {cc(p): n for p, n in self.items()} fed to the constructor *)
Definition dd_cc (cc : string -> string) (d : dd) : dd :=
  dd_of_map (pd_of_list (map (fun kv => (cc (fst kv), snd kv)) d)).

(* elements(), sorted — the canonical observation to_list() *)
Definition dd_elements (d : dd) : list string := flat_map (fun kv => repeat (fst kv) (snd kv)) d.
Definition dd_to_list (d : dd) : list string := sort_strings (dd_elements d).

(* ------------------------------------------------------------------ DecayMode *)
Record mode := { m_bf : Q; m_fs : dd; m_meta : pdict val }.

(* DecayMode(bf, daughters, **info): metadata = {"model": "", "model_params": ""} updated with info *)
Definition default_meta : pdict val := [("model", VStr ""); ("model_params", VStr "")].
Definition mk_mode (bf : Q) (fs : dd) (info : pdict val) : mode :=
  {| m_bf := bf; m_fs := fs; m_meta := pd_update default_meta info |}.

Definition mode_cc (cc : string -> string) (m : mode) : mode :=
  mk_mode (m_bf m) (dd_cc cc (m_fs m)) (m_meta m).

(* ------------------------------------------------------------------ observation *)
Definition vdd_obs (d : dd) : val :=
  VList [VList (map (fun kv => VList [VStr (fst kv); VInt (Z.of_nat (snd kv))]) d);
         vstrs (sort_strings (flat_map (fun kv => repeat (fst kv) (snd kv)) d));
         VInt (Z.of_nat (dd_total d))].
Definition vdd (d : dd) : val := VList (map (fun kv => VList [VStr (fst kv); VInt (Z.of_nat (snd kv))]) d).
Definition vmeta (m : pdict val) : val := VList (map (fun kv => VList [VStr (fst kv); snd kv]) m).
Definition vmode (m : mode) : val :=
  VList [vq (m_bf m); vstrs (dd_to_list (m_fs m)); VInt (Z.of_nat (dd_total (m_fs m))); vmeta (m_meta m)].
