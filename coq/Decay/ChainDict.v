(* ChainDict.v — the dictionary representation of decay chains
     {mother: [ {bf, fs: [name | {sub-chain}], model, model_params, ...}, ... ]}
   (DecFileParser.build_decay_chains / DecayChain.to_dict), and the model of
   decay.decay._expand_decay_modes (src/decaylanguage/decay/decay.py:590-729) on it.
   No proofs here. *)
From Coq Require Import String Ascii List Bool ZArith QArith Arith.
From DL Require Import Lib.Val Lib.PyDict Lib.Sort Lib.Product Fmt.DescFormat.
Import ListNotations.
Close Scope Q_scope.
Open Scope string_scope.

Inductive cdict := CD (mother : string) (modes : list cmode)
with cmode := CM (bf : Q) (fs : list fsp) (meta : pdict val)
with fsp := FName (n : string) | FSub (c : cdict).

Definition cd_mother (c : cdict) : string := match c with CD m _ => m end.
Definition cd_modes (c : cdict) : list cmode := match c with CD _ ms => ms end.
Definition cm_fs (m : cmode) : list fsp := match m with CM _ fs _ => fs end.
Definition cm_bf (m : cmode) : Q := match m with CM bf _ _ => bf end.
Definition cm_meta (m : cmode) : pdict val := match m with CM _ _ meta => meta end.

Fixpoint join (sep : string) (l : list string) : string :=
  match l with
  | [] => ""
  | [x] => x
  | x :: r => x ++ sep ++ join sep r
  end.

(* DescriptorFormat.format_descriptor with the patterns cfg; patterns outside the plain
   fragment are not rendered by the model (C14 explains the fragment) *)
Definition fmt (cfg : string * string) (top : bool) (m d : string) : string :=
  match render (if top then fst cfg else snd cfg) m d with
  | Some s => s
  | None => "<pattern outside the modelled fragment>"
  end.

Definition alias_of (al : pdict string) (n : string) : string :=
  match pd_get n al with Some a => a | None => n end.

(* _expand_decay_modes: daughters are expanded first (bottom-up), then for every mode the
   product of the daughters' options, each combination rendered with sorted daughters.
   A daughter whose sub-chain has no decay modes is stable: it contributes its bare name. *)
Fixpoint expand (cfg : string * string) (al : pdict string) (top : bool) (c : cdict) : list string :=
  match c with
  | CD orig modes =>
      let mother := alias_of al orig in
      flat_map (fun m =>
        match m with
        | CM _ fs _ =>
            let opts := map (fun f => match f with
                                      | FName n => [n]
                                      | FSub c' => match expand cfg al false c' with
                                                   | [] => [cd_mother c']
                                                   | e => e
                                                   end
                                      end) fs in
            map (fun combo => fmt cfg top mother (join " " (sort_strings combo))) (product opts)
        end) modes
  end.

Definition default_fmt : string * string := default_cfg.

(* ------------------------------------------------------------------ observation *)
Fixpoint vcdict (c : cdict) : val :=
  match c with
  | CD m modes =>
      VList [VStr m; VList (map (fun md => match md with
        | CM bf fs meta =>
            VList [vq bf;
                   VList (map (fun f => match f with FName n => VStr n | FSub c' => vcdict c' end) fs);
                   VList (map (fun kv => VList [VStr (fst kv); snd kv]) meta)]
        end) modes)]
  end.
