(* DescriptorProofs.v — the one-line descriptor of a single chain (property C13). *)
From Coq Require Import String Ascii List Bool ZArith QArith Arith Lia Permutation.
From DL Require Import Fmt.DescFormat.
From DL Require Import Lib.Val Lib.PyDict Lib.Sort Lib.Product Decay.Conj Decay.Flatten Decay.ChainDict
  Decay.ExpandProofs Dec.Tables Decay.ChainClass Decay.ChainClassProofs.
Import ListNotations.
Close Scope Q_scope.
Open Scope string_scope.
Open Scope list_scope.

(* the descriptor as a function of the (single-mode) chain dictionary: first pattern at the top,
   second pattern at every nested level, daughters sorted at every level *)
Fixpoint descr (cfg : string * string) (top : bool) (c : cdict) : string :=
  match c with
  | CD m (CM _ fs _ :: _) =>
      fmt cfg top m (join " " (sort_strings (map (fun f => match f with
                                                            | ChainDict.FName n => n
                                                            | FSub c' => descr cfg false c'
                                                            end) fs)))
  | CD m [] => m
  end.

Definition ditem cfg (f : fsp) : string :=
  match f with ChainDict.FName n => n | FSub c' => descr cfg false c' end.

(* every node has exactly one decay mode — what DecayChain.to_dict produces *)
Inductive single : cdict -> Prop :=
| single_intro m bf fs meta : Forall single_f fs -> single (CD m [CM bf fs meta])
with single_f : fsp -> Prop :=
| sf_name n : single_f (ChainDict.FName n)
| sf_sub c : single c -> single_f (FSub c).

Lemma product_singletons {A} (l : list A) : product (map (fun x => [x]) l) = [l].
Proof. induction l as [|a l IH]; simpl; [reflexivity|]. rewrite IH. reflexivity. Qed.

Lemma alias_of_nil n : alias_of [] n = n.
Proof. reflexivity. Qed.

Theorem expand_single cfg : forall c top, single c -> expand cfg [] top c = [descr cfg top c].
Proof.
  apply (cdict_ind'
    (fun c => forall top, single c -> expand cfg [] top c = [descr cfg top c])
    (fun md => Forall single_f (cm_fs md) ->
        map (fun f => match f with
                      | ChainDict.FName n => [n]
                      | FSub c' => match expand cfg [] false c' with [] => [cd_mother c'] | e => e end
                      end) (cm_fs md) = map (fun f => [ditem cfg f]) (cm_fs md))
    (fun f => single_f f ->
        match f with
        | ChainDict.FName n => [n]
        | FSub c' => match expand cfg [] false c' with [] => [cd_mother c'] | e => e end
        end = [ditem cfg f])).
  - intros m ms IH top Hs. inversion Hs as [m' bf fs meta Hfs]; subst.
    inversion IH as [|md r Hmd _]; subst. simpl in Hmd. specialize (Hmd Hfs).
    simpl. rewrite app_nil_r. rewrite Hmd.
    rewrite <- (map_map (ditem cfg) (fun x => [x])). rewrite product_singletons. reflexivity.
  - intros bf fs meta IH Hs. simpl in *.
    induction IH as [|f r Hf Hr IHr]; simpl; [reflexivity|].
    inversion Hs; subst. rewrite Hf by assumption. rewrite IHr by assumption. reflexivity.
  - intros n _. reflexivity.
  - intros c IH Hs. inversion Hs; subst. rewrite IH by assumption. reflexivity.
Qed.

(* equivalence of single chain dictionaries up to the order of daughters at every level *)
Inductive ceq : cdict -> cdict -> Prop :=
| ceq_intro m bf bf' meta meta' fs fs' mid :
    Permutation fs mid -> Forall2 feq mid fs' ->
    ceq (CD m [CM bf fs meta]) (CD m [CM bf' fs' meta'])
with feq : fsp -> fsp -> Prop :=
| feq_name n : feq (ChainDict.FName n) (ChainDict.FName n)
| feq_sub c c' : ceq c c' -> feq (FSub c) (FSub c').

Fixpoint csz (c : cdict) : nat :=
  match c with
  | CD _ modes => S (fold_right (fun md acc => match md with CM _ fs _ =>
       fold_right (fun f a => match f with ChainDict.FName _ => 1 | FSub c' => csz c' end + a) 0 fs end + acc) 0 modes)
  end.

Lemma fsz_perm (fs mid : list fsp) : Permutation fs mid ->
  fold_right (fun f a => match f with ChainDict.FName _ => 1 | FSub c' => csz c' end + a) 0 fs =
  fold_right (fun f a => match f with ChainDict.FName _ => 1 | FSub c' => csz c' end + a) 0 mid.
Proof.
  intros HP. set (g := fun f : fsp => match f with ChainDict.FName _ => 1 | FSub c' => csz c' end).
  change (fold_right (fun f a => g f + a) 0 fs = fold_right (fun f a => g f + a) 0 mid).
  induction HP; cbn [fold_right]; try lia.
Qed.

(* the descriptor is the same string whatever order daughters and sub-decays were given in *)
Theorem descr_order_canonical cfg : forall n c c' top, csz c < n -> ceq c c' -> descr cfg top c = descr cfg top c'.
Proof.
  induction n as [|n IH]; intros c c' top Hn H; [lia|].
  inversion H as [m bf bf' meta meta' fs fs' mid HP HF]; subst. simpl.
  f_equal. f_equal. apply sort_canonical.
  transitivity (map (ditem cfg) mid); [apply Permutation_map; exact HP|].
  assert (E : map (ditem cfg) mid = map (ditem cfg) fs'); [|fold (ditem cfg); rewrite E; reflexivity].
  simpl in Hn. rewrite (fsz_perm _ _ HP) in Hn.
  assert (Hb : fold_right (fun f a => match f with ChainDict.FName _ => 1 | FSub c' => csz c' end + a) 0 mid < n) by lia.
  clear - IH HF Hb. induction HF as [|a b l l' Hab Hl IHl]; simpl; [reflexivity|].
  cbn [fold_right] in Hb. f_equal.
  - inversion Hab; subst; [reflexivity|]. cbn [ditem]. apply IH; [lia | assumption].
  - apply IHl. destruct a; lia.
Qed.

(* at chain level: to_dict (hence to_string) depends on the sub-decay mapping only as a map, and on
   each final state only through its canonical list *)
Definition mode_key (m : mode) := (m_bf m, dd_to_list (m_fs m), meta_out (m_meta m)).

Lemma mapM_ext {A B} (f g : A -> option B) l : (forall x, In x l -> f x = g x) -> mapM f l = mapM g l.
Proof.
  induction l as [|x r IH]; simpl; intros H; [reflexivity|].
  rewrite (H x (or_introl eq_refl)), IH; [reflexivity|]. intros y Hy. apply H. right. assumption.
Qed.

Theorem to_dict_order_independent D D' :
  (forall k, option_map mode_key (pd_get k D) = option_map mode_key (pd_get k D')) ->
  forall fuel m, chain_to_dict fuel D m = chain_to_dict fuel D' m.
Proof.
  intros H. induction fuel as [|f IH]; intros m; simpl; [reflexivity|].
  pose proof (H m) as Hm. destruct (pd_get m D) as [md|], (pd_get m D') as [md'|]; simpl in Hm; try discriminate; [|reflexivity].
  inversion Hm as [[Hb Hl Hmeta]]. rewrite Hl, Hb, Hmeta.
  erewrite mapM_ext; [reflexivity|]. intros d _. simpl.
  assert (Emem : pd_mem d D = pd_mem d D').
  { unfold pd_mem. pose proof (H d) as Hd. destruct (pd_get d D), (pd_get d D'); simpl in Hd; congruence. }
  rewrite Emem, IH. reflexivity.
Qed.

Corollary to_string_order_independent cfg c c' :
  c_mother c = c_mother c' ->
  (forall k, option_map mode_key (pd_get k (c_decays c)) = option_map mode_key (pd_get k (c_decays c'))) ->
  chain_to_string cfg c = chain_to_string cfg c'.
Proof.
  intros Hm H. unfold chain_to_string. rewrite Hm, (to_dict_order_independent _ _ H). reflexivity.
Qed.

(* what to_dict produces is a single-mode dictionary, so to_string is [descr] of it *)
Lemma to_dict_single D : forall fuel m d, chain_to_dict fuel D m = Some d -> single d.
Proof.
  induction fuel as [|f IH]; intros m d H; simpl in H; [discriminate|].
  destruct (pd_get m D) as [md|]; [|discriminate].
  match type of H with match ?X with _ => _ end = _ => destruct X as [fs|] eqn:E; [|discriminate] end.
  inversion H; subst. constructor. clear H.
  revert fs E. generalize (dd_to_list (m_fs md)). induction l as [|x l IHl]; intros fs E; simpl in E.
  - inversion E. constructor.
  - destruct (pd_mem x D).
    + destruct (chain_to_dict f D x) as [c|] eqn:Ec; [|discriminate].
      destruct (mapM _ l) as [ys|] eqn:El; [|discriminate]. inversion E; subst.
      constructor; [constructor; eapply IH; eassumption | apply IHl; reflexivity].
    + destruct (mapM _ l) as [ys|] eqn:El; [|discriminate]. inversion E; subst.
      constructor; [constructor | apply IHl; reflexivity].
Qed.

Theorem to_string_is_descr cfg c d :
  chain_to_dict 100 (c_decays c) (c_mother c) = Some d ->
  chain_to_string cfg c = VStr (descr cfg true d).
Proof.
  intros H. unfold chain_to_string. rewrite H.
  rewrite (expand_single cfg d true (to_dict_single _ _ _ _ H)). reflexivity.
Qed.
