#!/bin/sh
# Build the fixed part of the Coq development (full .vo build, no -vos). Offline.
set -e
cd "$(dirname "$0")"
mkdir -p build evidence coq/Gen
/venv/bin/python py/gen_all.py
cd coq
coq_makefile -f _CoqProject -o Makefile >/dev/null
timeout 3000 make -j16
